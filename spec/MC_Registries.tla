--------------------------- MODULE MC_Registries ---------------------------
(***************************************************************************)
(* Implementation-shaped model of the seven RWA registries of property C20,*)
(* checked exhaustively by TLC against the monitors of Registries.tla and  *)
(* used as generator of the behaviours replayed on the real code.          *)
(*                                                                         *)
(* Storage as each storage.rs keeps it (variable `st`, shape per flavour): *)
(*  keys    Topics(t) : Vec<key>,  Pairs(key) : Vec<(topic, registry)>     *)
(*          (order-preserving removal; empty vectors are removed entries)  *)
(*  cti     ClaimTopics, TrustedIssuers : Vec;  IssuerClaimTopics(i),      *)
(*          ClaimTopicIssuers(t) : optional Vec (both directions stored    *)
(*          separately, order-preserving removal)                          *)
(*  binder  TokenBucket(n) : Vec (BS per bucket), TotalCount; swap-remove  *)
(*  docs    Index(name), Bucket(n) : Vec<(name, doc)>, Count; swap-remove  *)
(*  irs     Identity(a), IdentityProfile(a), RecoveredTo(a)                *)
(*  modules HookModules(h) : Vec (order-preserving removal)                *)
(*  claims  Claim(id), ClaimsByTopic(t) : Vec<id>, id = hash(issuer, topic) *)
(*          (order-preserving removal; an emptied list is a removed entry) *)
(* Every entry point is a pure function  Impl(st, o) = [ok, st]  with the  *)
(* code's checks; a refused call leaves `st` (host rollback).              *)
(***************************************************************************)
EXTENDS Registries, TLC, Json

CONSTANTS Fls,                       \* flavours explored
          KS, TS, RS,                \* keys: signing keys, topics, registries
          CTS, CIS, CXn,             \* cti: topics, issuers, longest topic list of a call
          BUS, BBn,                  \* binder: tokens, longest batch
          DNS, DU, DH, DTS,          \* docs: names, uris, hashes, timestamps
          IAS, IID, ITY, IC, ICn,    \* irs: accounts, identities, types, countries, longest country list
          MHS, MMS,                  \* modules: hooks, modules
          CTP, CIP, CDP, CSch,       \* claims: topics, issuers, data tags (also uri and signature tags), schemes
          BS,                        \* scaled bucket size (binder and docs)
          LimKpt, LimRpk, LimTopics, LimIssuers, LimTokens, LimBatch, LimDocs, LimCountries, LimModules,
          BUG,                       \* "none", or a defect re-introduced (vacuity guards):
                                     \*  "keys_offbyone"      allow_key pushes the pair, then tests len >= limit (the pinned code)
                                     \*  "keys_stale_topic"   remove_key drops the key from Topics(t) only with its last pair
                                     \*  "cti_stale_reverse"  remove_trusted_issuer forgets the topic -> issuers lists
                                     \*  "binder_wrong_bucket" unbind writes the moved token into the last token's bucket
                                     \*  "docs_stale_index"   remove_document forgets the moved document's index
                                     \*  "irs_rereg"          add_identity does not look at the recovery link
                                     \*  "modules_cap_gt"     add_module_to tests len > limit
                                     \*  "claims_dup_index"   add_claim pushes the id to ClaimsByTopic on an overwrite too
                                     \*  "claims_stale_index" remove_claim leaves the id in ClaimsByTopic
                                     \*  "claims_topic_blind" generate_claim_id ignores the topic
          DpKeys, DpCti, DpBinder, DpDocs, DpIrs, DpModules, DpClaims,   \* bound on the number of calls, per flavour
          EmitEvery

VARIABLES fl, st, g, viol, hist

vars == <<fl, st, g, viol, hist>>
View == <<fl, st, g, viol, Len(hist)>>

(* sequences as the soroban Vec operations use them -------------------------------*)
Has(s, x) == \E i \in DOMAIN s : s[i] = x
First(s, x) == CHOOSE i \in DOMAIN s : s[i] = x /\ \A j \in 1..(i - 1) : s[j] # x
RemFirst(s, x) == IF Has(s, x) THEN RemAt(s, First(s, x)) ELSE s
Pop(s) == SubSeq(s, 1, Len(s) - 1)

RECURSIVE SeqsN(_, _)
SeqsN(S, n) == IF n = 0 THEN {<<>>} ELSE {Append(s, x) : s \in SeqsN(S, n - 1), x \in S}
SeqsUpTo(S, n) == UNION {SeqsN(S, m) : m \in 0..n}

\* a fixed enumeration of a set (the order in which the harness probes a universe)
RECURSIVE SeqOf(_)
SeqOf(S) == IF S = {} THEN <<>> ELSE LET x == CHOOSE y \in S : TRUE IN <<x>> \o SeqOf(S \ {x})
KSeq == SeqOf(KS)
TSeq == SeqOf(TS)
RSeq == SeqOf(RS)
CT == SeqOf(CTS)
CI == SeqOf(CIS)
BU == SeqOf(BUS)
DN == SeqOf(DNS)
IA == SeqOf(IAS)
MM == SeqOf(MMS)

Lim(f) ==
  CASE f = "keys"    -> [kpt |-> LimKpt, rpk |-> LimRpk]
    [] f = "cti"     -> [topics |-> LimTopics, issuers |-> LimIssuers]
    [] f = "binder"  -> [max |-> LimTokens, batch |-> LimBatch]
    [] f = "docs"    -> [max |-> LimDocs, bucket |-> BS]
    [] f = "irs"     -> [countries |-> LimCountries]
    [] f = "modules" -> [modules |-> LimModules]
    [] f = "claims"  -> [none |-> 0]

(* keys: claim_issuer/storage.rs allow_key, remove_key ---------------------------------*)

InitKeys == [topics |-> [t \in TS |-> <<>>], pairs |-> [k \in KS |-> <<>>]]

ImplKeys(s, o) ==
  LET k == o.a  t == o.b  pr == <<o.b, o.c>> IN
  IF o.op = "allow" THEN
    LET inTopic   == Has(s.topics[t], k)
        topicFull == ~inTopic /\ Len(s.topics[t]) >= LimKpt
        dup       == Has(s.pairs[k], pr)
        full      == IF BUG = "keys_offbyone" THEN Len(s.pairs[k]) + 1 >= LimRpk
                     ELSE Len(s.pairs[k]) >= LimRpk
        ok        == ~topicFull /\ ~dup /\ ~full
    IN [ok |-> ok,
        st |-> IF ~ok THEN s
               ELSE [topics |-> IF inTopic THEN s.topics ELSE [s.topics EXCEPT ![t] = Append(@, k)],
                     pairs  |-> [s.pairs EXCEPT ![k] = Append(@, pr)]]]
  ELSE
    LET found == Has(s.pairs[k], pr)
        p1    == RemFirst(s.pairs[k], pr)
        still == IF BUG = "keys_stale_topic" THEN p1 # <<>> ELSE \E i \in DOMAIN p1 : p1[i][1] = t
        ok    == found /\ (still \/ Has(s.topics[t], k))
    IN [ok |-> ok,
        st |-> IF ~ok THEN s
               ELSE [topics |-> IF still THEN s.topics ELSE [s.topics EXCEPT ![t] = RemFirst(@, k)],
                     pairs  |-> [s.pairs EXCEPT ![k] = p1]]]

ObsKeys(s) ==
  [full |-> TRUE,
   kft  |-> [t \in TS |-> [ok |-> s.topics[t] # <<>>, v |-> s.topics[t]]],
   regs |-> [k \in KS |-> [ok |-> s.pairs[k] # <<>>,
                           v  |-> [i \in DOMAIN s.pairs[k] |-> s.pairs[k][i][2]]]],
   kt   |-> [k \in KS |-> SelectSeq(TSeq, LAMBDA t : Has(s.topics[t], k))],
   kr   |-> [k \in KS |-> SelectSeq(RSeq, LAMBDA r : \E i \in DOMAIN s.pairs[k] : s.pairs[k][i][2] = r)]]

OpsKeys == {[op |-> k, a |-> a, b |-> b, c |-> c, xs |-> <<>>, n |-> 0] :
              k \in {"allow", "remove"}, a \in KS, b \in TS, c \in RS}

(* cti: claim_topics_and_issuers/storage.rs ---------------------------------------------------*)
Absent == [ok |-> FALSE, v |-> <<>>]

InitCti == [topics |-> <<>>, issuers |-> <<>>, it |-> [i \in CIS |-> Absent], ti |-> [t \in CTS |-> Absent]]

\* the checks add_trusted_issuer and update_issuer_claim_topics run on their topic list
TopicListOk(s, xs) == xs # <<>> /\ Len(xs) <= LimTopics /\ NoDup(xs) /\ \A j \in DOMAIN xs : Has(s.topics, xs[j])

ImplCti(s, o) ==
  LET a == o.a  xs == o.xs IN
  CASE o.op = "add_topic" ->
         LET ok == Len(s.topics) < LimTopics /\ ~Has(s.topics, a) IN
         [ok |-> ok, st |-> IF ~ok THEN s ELSE
            [s EXCEPT !.topics = Append(@, a), !.ti[a] = [ok |-> TRUE, v |-> <<>>]]]
    [] o.op = "remove_topic" ->
         LET ok == Has(s.topics, a) IN
         [ok |-> ok, st |-> IF ~ok THEN s ELSE
            [s EXCEPT !.topics = RemFirst(@, a),
                      !.it = [i \in CIS |-> IF Has(s.issuers, i) /\ s.it[i].ok
                                            THEN [ok |-> TRUE, v |-> RemFirst(s.it[i].v, a)] ELSE s.it[i]],
                      !.ti[a] = Absent]]
    [] o.op = "add_issuer" ->
         LET ok == /\ TopicListOk(s, xs) /\ Len(s.issuers) < LimIssuers /\ ~Has(s.issuers, a)
                   /\ \A j \in DOMAIN xs : s.ti[xs[j]].ok IN
         [ok |-> ok, st |-> IF ~ok THEN s ELSE
            [s EXCEPT !.issuers = Append(@, a), !.it[a] = [ok |-> TRUE, v |-> xs],
                      !.ti = [t \in CTS |-> IF Has(xs, t) THEN [ok |-> TRUE, v |-> Append(s.ti[t].v, a)]
                                            ELSE s.ti[t]]]]
    [] o.op = "remove_issuer" ->
         LET old == s.it[a].v
             ok == Has(s.issuers, a) /\ s.it[a].ok /\ \A j \in DOMAIN old : s.ti[old[j]].ok IN
         [ok |-> ok, st |-> IF ~ok THEN s ELSE
            [s EXCEPT !.issuers = RemFirst(@, a), !.it[a] = Absent,
                      !.ti = IF BUG = "cti_stale_reverse" THEN @ ELSE
                             [t \in CTS |-> IF Has(old, t) THEN [ok |-> TRUE, v |-> RemFirst(s.ti[t].v, a)]
                                            ELSE s.ti[t]]]]
    [] o.op = "update_issuer" ->
         LET old == s.it[a].v
             ok == /\ TopicListOk(s, xs) /\ Has(s.issuers, a) /\ s.it[a].ok
                   /\ \A t \in CTS : (Has(old, t) # Has(xs, t)) => s.ti[t].ok IN
         [ok |-> ok, st |-> IF ~ok THEN s ELSE
            [s EXCEPT !.it[a] = [ok |-> TRUE, v |-> xs],
                      !.ti = [t \in CTS |->
                                IF Has(old, t) /\ ~Has(xs, t) THEN [ok |-> TRUE, v |-> RemFirst(s.ti[t].v, a)]
                                ELSE IF Has(xs, t) /\ ~Has(old, t) THEN [ok |-> TRUE, v |-> Append(s.ti[t].v, a)]
                                ELSE s.ti[t]]]]

ObsCti(s) ==
  [full    |-> TRUE,
   topics  |-> s.topics,
   issuers |-> s.issuers,
   ti      |-> s.ti,
   it      |-> s.it,
   map     |-> [ok |-> \A j \in DOMAIN s.topics : s.ti[s.topics[j]].ok,
                v  |-> [j \in DOMAIN s.topics |-> [t |-> s.topics[j], v |-> s.ti[s.topics[j]].v]]],
   trusted |-> SelectSeq(CI, LAMBDA i : Has(s.issuers, i)),
   has     |-> [i \in CIS |-> IF s.it[i].ok
                              THEN [yes |-> SelectSeq(CT, LAMBDA t : Has(s.it[i].v, t)), err |-> <<>>]
                              ELSE [yes |-> <<>>, err |-> CT]]]

OpsCti ==
  {[op |-> k, a |-> a, b |-> None, c |-> None, xs |-> <<>>, n |-> 0] : k \in {"add_topic", "remove_topic"}, a \in CTS}
  \cup {[op |-> "remove_issuer", a |-> a, b |-> None, c |-> None, xs |-> <<>>, n |-> 0] : a \in CIS}
  \cup {[op |-> k, a |-> a, b |-> None, c |-> None, xs |-> xs, n |-> 0] :
          k \in {"add_issuer", "update_issuer"}, a \in CIS, xs \in SeqsUpTo(CTS, CXn)}

(* binder: utils/token_binder/storage.rs --------------------------------------------------------*)
NBB == (Len(BU) \div BS) + 2                     \* buckets the model may touch

InitBinder == [b |-> [i \in 0..NBB |-> <<>>], cnt |-> 0]

LastB(s) == (s.cnt - 1) \div BS
IsBound(s, x) == s.cnt > 0 /\ \E bi \in 0..LastB(s) : Has(s.b[bi], x)              \* is_token_bound
TokIndex(s, x) ==                                                               \* get_token_index, -1 = refused
  IF IsBound(s, x)
  THEN LET bi == CHOOSE i \in 0..LastB(s) : Has(s.b[i], x) /\ \A j \in 0..(i - 1) : ~Has(s.b[j], x)
       IN bi * BS + First(s.b[bi], x) - 1
  ELSE -1
Slot(s, i) == LET bk == s.b[i \div BS]  off == (i % BS) + 1 IN IF off \in DOMAIN bk THEN bk[off] ELSE None

RECURSIVE PushAll(_, _)
PushAll(s, xs) ==
  IF xs = <<>> THEN s
  ELSE PushAll([b |-> [s.b EXCEPT ![s.cnt \div BS] = Append(@, Head(xs))], cnt |-> s.cnt + 1], Tail(xs))

ImplBinder(s, o) ==
  CASE o.op = "bind" ->
         LET ok == ~IsBound(s, o.a) /\ s.cnt < LimTokens IN
         [ok |-> ok, st |-> IF ok THEN PushAll(s, <<o.a>>) ELSE s]
    [] o.op = "bind_batch" ->
         LET ok == /\ Len(o.xs) <= LimBatch /\ s.cnt + Len(o.xs) <= LimTokens /\ NoDup(o.xs)
                   /\ \A j \in DOMAIN o.xs : ~IsBound(s, o.xs[j]) IN
         [ok |-> ok, st |-> IF ok THEN PushAll(s, o.xs) ELSE s]
    [] o.op = "unbind" ->
         LET ti   == TokIndex(s, o.a)
             last == s.cnt - 1
             off  == (ti % BS) + 1
             \* the bucket the moved token is written into
             wb   == IF BUG = "binder_wrong_bucket" THEN last \div BS ELSE ti \div BS
             ok   == ti >= 0 /\ (ti # last => off \in DOMAIN s.b[wb])
             b1   == IF ti # last THEN [s.b EXCEPT ![wb][off] = Slot(s, last)] ELSE s.b
         IN [ok |-> ok,
             st |-> IF ok THEN [b |-> [b1 EXCEPT ![last \div BS] = Pop(@)], cnt |-> last] ELSE s]

RECURSIVE Cat(_, _, _)
Cat(b, i, n) == IF i > n THEN <<>> ELSE b[i] \o Cat(b, i + 1, n)

ObsBinder(s) ==
  LET tokens == IF s.cnt = 0 THEN <<>> ELSE Cat(s.b, 0, LastB(s)) IN
  [full   |-> TRUE,
   tokens |-> tokens,
   isb    |-> [j \in DOMAIN BU |-> [k |-> BU[j], v |-> IsBound(s, BU[j])]],
   idx    |-> [j \in DOMAIN BU |-> [k |-> BU[j], v |-> TokIndex(s, BU[j])]],
   at     |-> [j \in 1..(Len(tokens) + 1) |-> [i |-> j - 1, v |-> IF j - 1 < s.cnt THEN Slot(s, j - 1) ELSE None]]]

OpsBinder ==
  {[op |-> k, a |-> a, b |-> None, c |-> None, xs |-> <<>>, n |-> 0] : k \in {"bind", "unbind"}, a \in BUS}
  \cup {[op |-> "bind_batch", a |-> None, b |-> None, c |-> None, xs |-> xs, n |-> 0] : xs \in SeqsUpTo(BUS, BBn)}

(* docs: extensions/doc_manager/storage.rs ----------------------------------------------------------*)
NDB == (Len(DN) \div BS) + 2
NoDoc == [uri |-> None, hash |-> None, ts |-> 0]

InitDocs == [idx |-> [k \in DNS |-> -1], b |-> [i \in 0..NDB |-> <<>>], cnt |-> 0]

HasSlot(s, i) == i >= 0 /\ ((i % BS) + 1) \in DOMAIN s.b[i \div BS]
SlotD(s, i) == s.b[i \div BS][(i % BS) + 1]

ImplDocs(s, o) ==
  IF o.op = "set_doc" THEN
    LET e == [k |-> o.a, d |-> [uri |-> o.b, hash |-> o.c, ts |-> o.n]]
        i == s.idx[o.a] IN
    IF i >= 0
    THEN [ok |-> HasSlot(s, i),
          st |-> IF HasSlot(s, i) THEN [s EXCEPT !.b[i \div BS][(i % BS) + 1] = e] ELSE s]
    ELSE [ok |-> s.cnt < LimDocs,
          st |-> IF s.cnt < LimDocs
                 THEN [idx |-> [s.idx EXCEPT ![o.a] = s.cnt],
                       b   |-> [s.b EXCEPT ![s.cnt \div BS] = Append(@, e)],
                       cnt |-> s.cnt + 1]
                 ELSE s]
  ELSE
    LET di   == s.idx[o.a]
        last == s.cnt - 1
        ok   == di >= 0 /\ last >= 0 /\ HasSlot(s, di) /\ HasSlot(s, last)
        le   == SlotD(s, last)
        idx1 == IF di # last /\ BUG # "docs_stale_index" THEN [s.idx EXCEPT ![le.k] = di] ELSE s.idx
        b1   == IF di # last THEN [s.b EXCEPT ![di \div BS][(di % BS) + 1] = le] ELSE s.b
    IN [ok |-> ok,
        st |-> IF ok THEN [idx |-> [idx1 EXCEPT ![o.a] = -1],
                           b   |-> [b1 EXCEPT ![last \div BS] = Pop(@)],
                           cnt |-> last]
               ELSE s]

ObsDocs(s) ==
  LET ByIdx(i) == IF i < s.cnt /\ HasSlot(s, i)
                  THEN [i |-> i, ok |-> TRUE, k |-> SlotD(s, i).k, d |-> SlotD(s, i).d]
                  ELSE [i |-> i, ok |-> FALSE, k |-> None, d |-> NoDoc] IN
  [full    |-> TRUE,
   count   |-> s.cnt,
   \* get_document(name) = the document at Index(name), whatever its name
   byname  |-> [j \in DOMAIN DN |-> LET p == IF s.idx[DN[j]] >= 0 THEN ByIdx(s.idx[DN[j]]) ELSE ByIdx(s.cnt)
                                    IN [k |-> DN[j], ok |-> p.ok, d |-> p.d]],
   at      |-> [j \in 1..(s.cnt + 1) |-> ByIdx(j - 1)],
   buckets |-> [j \in 1..((s.cnt \div BS) + 2) |-> [b |-> j - 1, v |-> s.b[j - 1]]]]

OpsDocs ==
  {[op |-> "set_doc", a |-> a, b |-> u, c |-> h, xs |-> <<>>, n |-> t] : a \in DNS, u \in DU, h \in DH, t \in DTS}
  \cup {[op |-> "remove_doc", a |-> a, b |-> None, c |-> None, xs |-> <<>>, n |-> 0] : a \in DNS}

(* irs: identity_registry_storage/storage.rs ---------------------------------------------------------*)
NoProf == [ok |-> FALSE, type |-> None, cs |-> <<>>]

InitIrs == [id |-> [a \in IAS |-> None], pr |-> [a \in IAS |-> NoProf], rec |-> [a \in IAS |-> None]]

ImplIrs(s, o) ==
  LET a == o.a  cs == s.pr[o.a].cs IN
  CASE o.op = "add_identity" ->
         LET ok == /\ (BUG = "irs_rereg" \/ s.rec[a] = None)
                   /\ o.xs # <<>> /\ Len(o.xs) <= LimCountries /\ s.id[a] = None IN
         [ok |-> ok, st |-> IF ~ok THEN s ELSE
            [s EXCEPT !.id[a] = o.b, !.pr[a] = [ok |-> TRUE, type |-> o.c, cs |-> o.xs]]]
    [] o.op = "modify_identity" ->
         [ok |-> s.id[a] # None, st |-> IF s.id[a] # None THEN [s EXCEPT !.id[a] = o.b] ELSE s]
    [] o.op = "remove_identity" ->
         LET ok == s.id[a] # None /\ s.pr[a].ok IN
         [ok |-> ok, st |-> IF ~ok THEN s ELSE [s EXCEPT !.id[a] = None, !.pr[a] = NoProf]]
    [] o.op = "recover" ->
         LET new == o.b
             ok == s.rec[new] = None /\ s.id[a] # None /\ s.id[new] = None /\ s.pr[a].ok IN
         [ok |-> ok, st |-> IF ~ok THEN s ELSE
            [id  |-> [s.id EXCEPT ![new] = s.id[a], ![a] = None],
             pr  |-> [s.pr EXCEPT ![new] = s.pr[a], ![a] = NoProf],
             rec |-> [s.rec EXCEPT ![a] = new]]]
    [] o.op = "add_countries" ->
         LET ok == o.xs # <<>> /\ s.pr[a].ok /\ Len(cs) + Len(o.xs) <= LimCountries IN
         [ok |-> ok, st |-> IF ~ok THEN s ELSE [s EXCEPT !.pr[a].cs = @ \o o.xs]]
    [] o.op = "modify_country" ->
         LET ok == s.pr[a].ok /\ o.n < Len(cs) IN
         [ok |-> ok, st |-> IF ~ok THEN s ELSE [s EXCEPT !.pr[a].cs[o.n + 1] = o.b]]
    [] o.op = "delete_country" ->
         LET ok == s.pr[a].ok /\ Len(cs) # 1 /\ o.n < Len(cs) IN
         [ok |-> ok, st |-> IF ~ok THEN s ELSE [s EXCEPT !.pr[a].cs = RemAt(@, o.n + 1)]]

ObsIrs(s) ==
  [full    |-> TRUE,
   ident   |-> s.id,
   prof    |-> s.pr,
   entries |-> [a \in IAS |-> s.pr[a].cs],
   cd      |-> [a \in IAS |-> LET cs == s.pr[a].cs IN
                  [j \in 1..(Len(cs) + 1) |-> IF j <= Len(cs) THEN [ok |-> TRUE, c |-> cs[j]]
                                             ELSE [ok |-> FALSE, c |-> None]]],
   rec     |-> s.rec]

Mk(k, a, b, c, xs, n) == [op |-> k, a |-> a, b |-> b, c |-> c, xs |-> xs, n |-> n]

OpsIrs ==
  {Mk("add_identity", a, i, ty, xs, 0) : a \in IAS, i \in IID, ty \in ITY, xs \in SeqsUpTo(IC, ICn)}
  \cup {Mk("modify_identity", a, i, None, <<>>, 0) : a \in IAS, i \in IID}
  \cup {Mk("remove_identity", a, None, None, <<>>, 0) : a \in IAS}
  \cup {Mk("recover", a, b, None, <<>>, 0) : a \in IAS, b \in IAS}
  \cup {Mk("add_countries", a, None, None, xs, 0) : a \in IAS, xs \in SeqsUpTo(IC, ICn)}
  \cup {Mk("modify_country", a, c, None, <<>>, n) : a \in IAS, c \in IC, n \in 0..1}
  \cup {Mk("delete_country", a, None, None, <<>>, n) : a \in IAS, n \in 0..2}

(* modules: compliance/storage.rs add_module_to, remove_module_from ---------------------------------------*)

InitModules == [m |-> [h \in MHS |-> <<>>]]

ImplModules(s, o) ==
  LET l == s.m[o.a] IN
  IF o.op = "add_module" THEN
    LET full == IF BUG = "modules_cap_gt" THEN Len(l) > LimModules ELSE Len(l) >= LimModules
        ok == ~Has(l, o.b) /\ ~full IN
    [ok |-> ok, st |-> IF ok THEN [s EXCEPT !.m[o.a] = Append(@, o.b)] ELSE s]
  ELSE [ok |-> Has(l, o.b), st |-> [s EXCEPT !.m[o.a] = RemFirst(@, o.b)]]

ObsModules(s) ==
  [full |-> TRUE,
   mods |-> s.m,
   reg  |-> [h \in MHS |-> SelectSeq(MM, LAMBDA x : Has(s.m[h], x))]]

OpsModules == {Mk(k, h, x, None, <<>>, 0) : k \in {"add_module", "remove_module"}, h \in MHS, x \in MMS}

(* claims: identity_claims/storage.rs add_claim, remove_claim ------------------------------------------------*)
CPairs == SeqOf(CTP \X CIP)                       \* the order in which the harness probes (topic, issuer)
CT0 == CHOOSE t \in CTP : TRUE
IdOf(t, i) == IF BUG = "claims_topic_blind" THEN Cid(CT0, i) ELSE Cid(t, i)      \* generate_claim_id
CIds == {Cid(t, i) : t \in CTP, i \in CIP}
NoClaim == [ok |-> FALSE, topic |-> None, issuer |-> None, data |-> None, scheme |-> 0, uri |-> None, sig |-> None]

InitClaims == [cl |-> [id \in CIds |-> NoClaim], idx |-> [t \in CTP |-> <<>>]]

\* add_claim: the issuer contract is asked first (it traps on "add_invalid"); `ret` is the id returned
ImplClaims(s, o) ==
  LET id == IdOf(o.a, o.b) IN
  CASE o.op = "add_claim" ->
         LET new == ~s.cl[id].ok \/ BUG = "claims_dup_index"
             c   == [ok |-> TRUE, topic |-> o.a, issuer |-> o.b, data |-> o.c, scheme |-> o.n,
                     uri |-> o.xs[1], sig |-> o.xs[2]]
         IN [ok |-> TRUE, ret |-> id,
             st |-> [cl  |-> [s.cl EXCEPT ![id] = c],
                     idx |-> IF new THEN [s.idx EXCEPT ![o.a] = Append(@, id)] ELSE s.idx]]
    [] o.op = "add_invalid" -> [ok |-> FALSE, ret |-> None, st |-> s]
    [] o.op = "remove_claim" ->
         LET ok == s.cl[id].ok
             t  == s.cl[id].topic                  \* the topic recorded in the claim
         IN [ok |-> ok, ret |-> None,
             st |-> IF ~ok THEN s
                    ELSE [cl  |-> [s.cl EXCEPT ![id] = NoClaim],
                          idx |-> IF BUG = "claims_stale_index" THEN s.idx
                                  ELSE [s.idx EXCEPT ![t] = RemFirst(@, id)]]]

ObsClaims(s) ==
  [full  |-> TRUE,
   claim |-> [j \in DOMAIN CPairs |->
                LET t == CPairs[j][1]  i == CPairs[j][2]  c == s.cl[IdOf(t, i)] IN
                [t |-> t, i |-> i, id |-> IdOf(t, i), ok |-> c.ok, topic |-> c.topic, issuer |-> c.issuer,
                 data |-> c.data, scheme |-> c.scheme, uri |-> c.uri, sig |-> c.sig]],
   byt   |-> s.idx]

\* the rejecting issuer is tried with one payload only
CD0 == CHOOSE d \in CDP : TRUE
CS0 == CHOOSE n \in CSch : TRUE
OpsClaims ==
  {Mk("add_claim", t, i, d, <<d, d>>, n) : t \in CTP, i \in CIP, d \in CDP, n \in CSch}
  \cup {Mk("add_invalid", t, i, CD0, <<CD0, CD0>>, CS0) : t \in CTP, i \in CIP}
  \cup {Mk("remove_claim", t, i, None, <<>>, 0) : t \in CTP, i \in CIP}

(* the seven registries behind one interface ------------------------------------------------------------------*)
InitSt(f) ==
  CASE f = "keys" -> InitKeys [] f = "cti" -> InitCti [] f = "binder" -> InitBinder
    [] f = "docs" -> InitDocs [] f = "irs" -> InitIrs [] f = "modules" -> InitModules
    [] f = "claims" -> InitClaims

Impl(f, s, o) ==
  CASE f = "keys" -> ImplKeys(s, o) [] f = "cti" -> ImplCti(s, o) [] f = "binder" -> ImplBinder(s, o)
    [] f = "docs" -> ImplDocs(s, o) [] f = "irs" -> ImplIrs(s, o) [] f = "modules" -> ImplModules(s, o)
    [] f = "claims" -> ImplClaims(s, o)

\* what the public getters answer
Obs(f, s) ==
  CASE f = "keys" -> ObsKeys(s) [] f = "cti" -> ObsCti(s) [] f = "binder" -> ObsBinder(s)
    [] f = "docs" -> ObsDocs(s) [] f = "irs" -> ObsIrs(s) [] f = "modules" -> ObsModules(s)
    [] f = "claims" -> ObsClaims(s)

Ops(f) ==
  CASE f = "keys" -> OpsKeys [] f = "cti" -> OpsCti [] f = "binder" -> OpsBinder
    [] f = "docs" -> OpsDocs [] f = "irs" -> OpsIrs [] f = "modules" -> OpsModules
    [] f = "claims" -> OpsClaims

Depth == CASE fl = "keys" -> DpKeys [] fl = "cti" -> DpCti [] fl = "binder" -> DpBinder
           [] fl = "docs" -> DpDocs [] fl = "irs" -> DpIrs [] fl = "modules" -> DpModules
           [] fl = "claims" -> DpClaims

Init == /\ fl \in Fls
        /\ st = InitSt(fl)
        /\ g = GInit(fl, Lim(fl), Obs(fl, InitSt(fl)))
        /\ viol = {} /\ hist = <<>>

Step(o) ==
  LET r  == Impl(fl, st, o)
      ev == [op |-> o, res |-> IF r.ok THEN "ok" ELSE "fail",
             ret |-> IF fl = "claims" THEN r.ret ELSE None, obs |-> Obs(fl, r.st)]
  IN /\ st' = r.st
     /\ UNCHANGED fl
     /\ g' = GNext(g, ev)
     /\ viol' = viol \cup {<<m, Key(m, g, ev)>> : m \in Failing(g, ev)}
     /\ hist' = Append(hist, [op |-> o.op, a |-> o.a, b |-> o.b, c |-> o.c, xs |-> o.xs, n |-> o.n,
                              exp |-> ev.res])

Next == Len(hist) < Depth /\ \E o \in Ops(fl) : Step(o)

Spec == Init /\ [][Next]_vars

Bound == Len(hist) <= Depth

\* one behaviour per generated transition into the last level (every shorter history is a prefix of one)
EmitReplay ==
  (EmitEvery > 0 /\ Len(hist') = Depth /\ (EmitEvery = 1 \/ RandomElement(1..EmitEvery) = 1))
    => PrintT(<<"REPLAY", ToJson([cfg |-> [flavour |-> fl, regime |-> "mc"], ops |-> hist'])>>)

(* what TLC checks ----------------------------------------------------------------------------------------------*)
NoViolation == viol = {}

\* the implementation-shaped state is a representation of the plain set / map:
\* every getter evaluated on it gives the ghost's answer, and the storage itself is well-formed
Clamp(x, lo, hi) == IF x < lo THEN lo ELSE IF x > hi THEN hi ELSE x

Shape ==
  CASE fl = "keys" ->
         /\ \A t \in TS : NoDup(st.topics[t]) /\ ToSet(st.topics[t]) = KeysOfTopic(g.S, t)
         /\ \A k \in KS : NoDup(st.pairs[k]) /\ ToSet(st.pairs[k]) = PairsOfKey(g.S, k)
    [] fl = "cti" ->
         /\ NoDup(st.topics) /\ ToSet(st.topics) = g.T
         /\ NoDup(st.issuers) /\ ToSet(st.issuers) = g.I
         /\ \A i \in CIS : st.it[i].ok = (i \in g.I) /\ ToSet(st.it[i].v) = TopicsOf(g, i) /\ NoDup(st.it[i].v)
         /\ \A t \in CTS : st.ti[t].ok = (t \in g.T) /\ ToSet(st.ti[t].v) = IssuersOf(g, t) /\ NoDup(st.ti[t].v)
    [] fl = "binder" ->
         /\ st.cnt = Cardinality(g.S)
         /\ \A i \in 0..NBB : Len(st.b[i]) = Clamp(st.cnt - i * BS, 0, BS)      \* gap-free buckets
         /\ {Slot(st, i) : i \in 0..(st.cnt - 1)} = g.S
    [] fl = "docs" ->
         /\ st.cnt = NDocs(g)
         /\ \A i \in 0..NDB : Len(st.b[i]) = Clamp(st.cnt - i * BS, 0, BS)
         /\ \A k \in DNS : IF k \in DOMAIN g.D
                           THEN st.idx[k] \in 0..(st.cnt - 1) /\ SlotD(st, st.idx[k]) = [k |-> k, d |-> g.D[k]]
                           ELSE st.idx[k] = -1
    [] fl = "irs" ->
         /\ \A a \in IAS : st.id[a] = (IF a \in DOMAIN g.id THEN g.id[a] ELSE None)
         /\ \A a \in IAS : st.pr[a].ok = (a \in DOMAIN g.pr) /\ st.pr[a].ok = (st.id[a] # None)
         /\ \A a \in IAS : st.rec[a] = (IF a \in DOMAIN g.rec THEN g.rec[a] ELSE None)
         /\ \A a \in IAS : st.rec[a] # None => st.id[a] = None
    [] fl = "modules" ->
         \A h \in MHS : NoDup(st.m[h]) /\ ToSet(st.m[h]) = ModulesOf(g, h)
    [] fl = "claims" ->
         /\ \A t \in CTP : NoDup(st.idx[t]) /\ ToSet(st.idx[t]) = {Cid(k[1], k[2]) : k \in LiveOf(g, t)}
         /\ \A t \in CTP, i \in CIP :
              LET c == st.cl[Cid(t, i)] IN
              IF <<t, i>> \in DOMAIN g.C THEN c.ok /\ c.topic = t /\ c.issuer = i /\ c.data = g.C[<<t, i>>].data
              ELSE c = NoClaim

Refines == QueryOk(g, Obs(fl, st)) /\ EnumOk(g, Obs(fl, st)) /\ Shape
=============================================================================
