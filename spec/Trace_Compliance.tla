------------------------- MODULE Trace_Compliance -------------------------
(* Trace validation for Compliance.tla (conventions: see Trace_RoleTransfer; `dead` stays FALSE: after a failure *)
(* the registry part of the ghost is re-based on the observation, see GStep, so no part of a run is skipped).   *)
EXTENDS Compliance, TLC, Json, IOUtils
Rec == ndJsonDeserialize(IOEnv.TRACE)
VARIABLES l, g, dead, cnt
vars == <<l, g, dead, cnt>>
NormOp(o) == [op |-> o.op, hook |-> o.hook, m |-> o.m, tok |-> o.tok, from |-> o.from, to |-> o.to, amt |-> o.amt,
              auth |-> ToSetS(o.auth), ax |-> o.ax, fn |-> o.fn, k |-> o.k, a |-> o.a, n |-> o.n, fns |-> ToSetS(o.fns)]
NormNote(x) == [m |-> x.m, kind |-> x.kind, from |-> x.from, to |-> x.to, amt |-> x.amt, tok |-> x.tok]
Norm(ev) == [op |-> NormOp(ev.op), res |-> ev.res, ret |-> ev.ret, run |-> ev.run, i |-> ev.i,
             obs |-> [mods |-> [h \in Hooks |-> ev.obs.mods[h]],
                      reg |-> [h \in Hooks |-> ToSetS(ev.obs.reg[h])],
                      bound |-> ToSetS(ev.obs.bound),
                      notes |-> [j \in DOMAIN ev.obs.notes |-> NormNote(ev.obs.notes[j])]]]
Init == l = 1 /\ g = [mset |-> {}] /\ dead = FALSE /\ cnt = [m \in Monitors |-> 0]
Report(ev, m) == PrintT(<<"VIOL", ToJson([run |-> ev.run, i |-> ev.i, line |-> l, mon |-> m,
                                          prop |-> PropOf(m), key |-> Key(m, g, ev)])>>)
Next ==
  /\ l <= Len(Rec)
  /\ l' = l + 1
  /\ LET raw == Rec[l] IN
     IF raw.op.op = "reset"
     THEN /\ g' = GInit(ToSetS(raw.op.mset), ToSetS(raw.op.core), ToSetS(raw.op.toks), ToSetS(raw.op.inert))
          /\ dead' = FALSE /\ UNCHANGED cnt
     ELSE IF dead THEN UNCHANGED <<g, dead, cnt>>
     ELSE LET ev == Norm(raw)  f == Failing(g, ev) IN
          /\ \A m \in f : Report(ev, m)
          /\ dead' = FALSE
          /\ g' = GStep(g, ev)
          /\ cnt' = [m \in Monitors |-> cnt[m] + IF Ante(m, g, ev) THEN 1 ELSE 0]
  /\ (l = Len(Rec) => PrintT(<<"DONE", l, ToJson(cnt')>>))
Spec == Init /\ [][Next]_vars
=============================================================================
