---------------------------- MODULE Trace_Votes ----------------------------
(***************************************************************************)
(* Trace validation: reads the ndjson trace recorded from the real         *)
(* contracts (env TRACE), advances the ghost state of Votes.tla by each     *)
(* recorded step and evaluates every monitor on it.  Violations are         *)
(* collected (printed as VIOL lines); after a violation the rest of that    *)
(* run is skipped and validation resumes at the next reset event.  `cnt`    *)
(* counts, per monitor, the steps on which its antecedent held.             *)
(***************************************************************************)
EXTENDS Votes, TLC, Json, IOUtils

Rec == ndJsonDeserialize(IOEnv.TRACE)

VARIABLES l, g, dead, cnt
vars == <<l, g, dead, cnt>>

ToSet(s) == {s[i] : i \in DOMAIN s}
Norm(ev) == [ev EXCEPT !.op = [op |-> ev.op.op, from |-> ev.op.from, to |-> ev.op.to, by |-> ev.op.by,
                                amt |-> ev.op.amt, auth |-> ToSet(ev.op.auth), dt |-> ev.op.dt]]

Init == l = 1 /\ g = GInit("fungible", {}) /\ dead = {} /\ cnt = [m \in Monitors |-> 0]

Report(ev, m) == PrintT(<<"VIOL", ToJson([run |-> ev.run, i |-> ev.i, line |-> l, mon |-> m,
                                          prop |-> PropOf(m), key |-> Key(m, g, ev), after |-> dead])>>)

Next ==
  /\ l <= Len(Rec)
  /\ l' = l + 1
  /\ LET raw == Rec[l] IN
     IF raw.op.op = "reset"
     THEN g' = GInit(raw.op.flavour, ToSet(raw.op.accts)) /\ dead' = {} /\ UNCHANGED cnt
     ELSE \E ev \in {Norm(raw)} :                 \* bound once, as a value
          /\ g' = GNext(g, ev)
          /\ LET f == {m \in FailingX(g, g', ev) : PropOf(m) \notin dead} IN
             /\ \A m \in f : Report(ev, m)
             /\ dead' = dead \cup {PropOf(m) : m \in f}
          /\ cnt' = [m \in Monitors |-> cnt[m] + IF Ante(m, g, ev) THEN 1 ELSE 0]
  /\ (l = Len(Rec) => PrintT(<<"DONE", l, ToJson(cnt')>>))

Spec == Init /\ [][Next]_vars
=============================================================================
