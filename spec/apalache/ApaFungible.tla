---------------------------- MODULE ApaFungible ----------------------------
(***************************************************************************)
(* Unbounded-amount check (Apalache, inductive invariant) of the design    *)
(* behind C01/C02: for ANY integer amounts, Base::update and the allowance *)
(* bookkeeping of packages/tokens/src/fungible/storage.rs keep              *)
(*   supply = sum of balances, 0 <= balances, 0 <= supply <= MAXI,         *)
(*   0 <= allowances.                                                      *)
(* TLC explores the same design with small amounts (MC_Fungible); here the *)
(* amounts are unconstrained integers and the property is shown inductive: *)
(*   IndInit => IndInv            (apalache-mc check --init=IndInit --inv=IndInv --length=0) *)
(*   IndInv /\ Next => IndInv'    (apalache-mc check --init=IndInit --inv=IndInv --length=1) *)
(* Three accounts; expiry of allowances is abstracted away (an allowance    *)
(* may additionally drop to zero at any time: action Lapse).                *)
(***************************************************************************)
EXTENDS Integers, Apalache

CONSTANTS
  \* @type: Set(Str);
  Acct,
  \* @type: Int;
  MAXI,
  \* @type: Bool;
  BUG        \* TRUE: the recipient's balance is read before the sender's is written (vacuity guard)

VARIABLES
  \* @type: Str -> Int;
  bal,
  \* @type: Int;
  supply,
  \* @type: <<Str, Str>> -> Int;
  allow

ConstInit == Acct = {"a", "b", "c"} /\ MAXI \in Int /\ MAXI >= 0 /\ BUG = FALSE
ConstInitBug == Acct = {"a", "b", "c"} /\ MAXI \in Int /\ MAXI >= 0 /\ BUG = TRUE

\* @type: (Str -> Int) => Int;
SumBal(b) == LET \* @type: (Int, Str) => Int;
                 Add(acc, a) == acc + b[a]
             IN ApaFoldSet(Add, 0, Acct)

IndInv ==
  /\ supply = SumBal(bal)
  /\ \A a \in Acct : bal[a] >= 0
  /\ supply >= 0 /\ supply <= MAXI
  /\ \A o \in Acct : \A s \in Acct : allow[<<o, s>>] >= 0

IndInit ==
  /\ bal \in [Acct -> Int]
  /\ supply \in Int
  /\ allow \in [Acct \X Acct -> Int]
  /\ IndInv

Init ==
  /\ bal = [a \in Acct |-> 0]
  /\ supply = 0
  /\ allow = [p \in Acct \X Acct |-> 0]

\* Base::update(Some(from), Some(to), x): debit written before the credit is read
Move(f, t, x) ==
  LET b1 == [bal EXCEPT ![f] = bal[f] - x] IN
  bal' = [b1 EXCEPT ![t] = (IF BUG THEN bal[t] ELSE b1[t]) + x]

Transfer(f, t, x) ==
  /\ x >= 0 /\ bal[f] >= x
  /\ Move(f, t, x) /\ UNCHANGED <<supply, allow>>

TransferFrom(s, f, t, x) ==
  /\ x >= 0 /\ allow[<<f, s>>] >= x /\ bal[f] >= x
  /\ allow' = [allow EXCEPT ![<<f, s>>] = allow[<<f, s>>] - x]
  /\ Move(f, t, x) /\ UNCHANGED supply

Mint(t, x) ==
  /\ x >= 0 /\ supply + x <= MAXI
  /\ bal' = [bal EXCEPT ![t] = bal[t] + x] /\ supply' = supply + x /\ UNCHANGED allow

Burn(f, x) ==
  /\ x >= 0 /\ bal[f] >= x
  /\ bal' = [bal EXCEPT ![f] = bal[f] - x] /\ supply' = supply - x /\ UNCHANGED allow

BurnFrom(s, f, x) ==
  /\ x >= 0 /\ allow[<<f, s>>] >= x /\ bal[f] >= x
  /\ allow' = [allow EXCEPT ![<<f, s>>] = allow[<<f, s>>] - x]
  /\ bal' = [bal EXCEPT ![f] = bal[f] - x] /\ supply' = supply - x

Approve(o, s, x) ==
  /\ x >= 0
  /\ allow' = [allow EXCEPT ![<<o, s>>] = x] /\ UNCHANGED <<bal, supply>>

Lapse(o, s) == allow' = [allow EXCEPT ![<<o, s>>] = 0] /\ UNCHANGED <<bal, supply>>

Next ==
  \E f \in Acct : \E t \in Acct : \E s \in Acct : \E x \in Int :
    \/ Transfer(f, t, x)
    \/ TransferFrom(s, f, t, x)
    \/ Mint(t, x)
    \/ Burn(f, x)
    \/ BurnFrom(s, f, x)
    \/ Approve(f, s, x)
    \/ Lapse(f, s)
    \/ UNCHANGED <<bal, supply, allow>>
=============================================================================
