------------------------------- MODULE ApaRwa -------------------------------
(***************************************************************************)
(* Unbounded-amount check (Apalache, inductive invariant) of the freeze    *)
(* bookkeeping behind C04 (packages/tokens/src/rwa/storage.rs): for ANY    *)
(* integer amounts, mint / transfer / forced_transfer / burn / freeze /    *)
(* unfreeze / recover_balance keep  0 <= frozen[a] <= bal[a]  and          *)
(* supply = sum of balances.  Gates other than the free-balance check are  *)
(* abstracted (a transfer may be refused for any other reason).            *)
(***************************************************************************)
EXTENDS Integers, Apalache

CONSTANTS
  \* @type: Set(Str);
  Acct,
  \* @type: Bool;
  BUG        \* TRUE: freeze compares only the new amount with the balance (vacuity guard)

VARIABLES
  \* @type: Str -> Int;
  bal,
  \* @type: Str -> Int;
  frozen,
  \* @type: Int;
  supply

ConstInit == Acct = {"a", "b", "c"} /\ BUG = FALSE
ConstInitBug == Acct = {"a", "b", "c"} /\ BUG = TRUE

\* @type: (Str -> Int) => Int;
SumBal(b) == LET \* @type: (Int, Str) => Int;
                 Add(acc, a) == acc + b[a]
             IN ApaFoldSet(Add, 0, Acct)

IndInv ==
  /\ supply = SumBal(bal)
  /\ \A a \in Acct : 0 <= frozen[a] /\ frozen[a] <= bal[a]

IndInit == bal \in [Acct -> Int] /\ frozen \in [Acct -> Int] /\ supply \in Int /\ IndInv
Init == bal = [a \in Acct |-> 0] /\ frozen = [a \in Acct |-> 0] /\ supply = 0

Min(x, y) == IF x <= y THEN x ELSE y
Move(f, t, x) == LET b1 == [bal EXCEPT ![f] = bal[f] - x] IN bal' = [b1 EXCEPT ![t] = b1[t] + x]

Mint(t, x) == x >= 0 /\ bal' = [bal EXCEPT ![t] = bal[t] + x] /\ supply' = supply + x /\ UNCHANGED frozen
\* holder-initiated: only free tokens move
Transfer(f, t, x) == x >= 0 /\ bal[f] - frozen[f] >= x /\ Move(f, t, x) /\ UNCHANGED <<frozen, supply>>
\* supervisory: unfreeze the minimum needed
Forced(f, t, x) ==
  /\ x >= 0 /\ bal[f] >= x /\ f # t
  /\ frozen' = [frozen EXCEPT ![f] = Min(frozen[f], bal[f] - x)]
  /\ Move(f, t, x) /\ UNCHANGED supply
Burn(f, x) ==
  /\ x >= 0 /\ bal[f] >= x
  /\ frozen' = [frozen EXCEPT ![f] = Min(frozen[f], bal[f] - x)]
  /\ bal' = [bal EXCEPT ![f] = bal[f] - x] /\ supply' = supply - x
Freeze(a, x) ==
  /\ x >= 0 /\ (IF BUG THEN x <= bal[a] ELSE frozen[a] + x <= bal[a])
  /\ frozen' = [frozen EXCEPT ![a] = frozen[a] + x] /\ UNCHANGED <<bal, supply>>
Unfreeze(a, x) ==
  /\ x >= 0 /\ x <= frozen[a]
  /\ frozen' = [frozen EXCEPT ![a] = frozen[a] - x] /\ UNCHANGED <<bal, supply>>
\* the whole balance and its frozen part move to the recovery target
Recover(o, n) ==
  /\ o # n
  /\ bal' = [bal EXCEPT ![o] = 0, ![n] = bal[n] + bal[o]]
  /\ frozen' = [frozen EXCEPT ![o] = 0, ![n] = frozen[n] + frozen[o]]
  /\ UNCHANGED supply

Next ==
  \E f \in Acct : \E t \in Acct : \E x \in Int :
    \/ Mint(t, x) \/ Transfer(f, t, x) \/ Forced(f, t, x) \/ Burn(f, x)
    \/ Freeze(f, x) \/ Unfreeze(f, x) \/ Recover(f, t)
    \/ UNCHANGED <<bal, frozen, supply>>
=============================================================================
