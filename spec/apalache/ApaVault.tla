------------------------------ MODULE ApaVault ------------------------------
(***************************************************************************)
(* Unbounded-amount check (Apalache) of the arithmetic core of C05: for    *)
(* ANY non-negative integers A (vault assets), S (share supply), P >= 1    *)
(* (10^offset) and any amount, the four vault operations with the          *)
(* roundings the code uses (deposit/redeem floor, mint/withdraw ceil) and  *)
(* a donation never lower the rate (A+1)/(S+P):                            *)
(*      (A'+1) * (S+P) >= (A+1) * (S'+P).                                  *)
(* The rounded quantity is introduced by its defining inequalities, so no   *)
(* division occurs.  pA, pS remember the state before the step.            *)
(***************************************************************************)
EXTENDS Integers

CONSTANTS
  \* @type: Int;
  P,
  \* @type: Bool;
  BUG        \* TRUE: withdraw rounds the burned shares down (vacuity guard)

VARIABLES
  \* @type: Int;
  A,
  \* @type: Int;
  S,
  \* @type: Int;
  pA,
  \* @type: Int;
  pS

ConstInit == P \in Int /\ P >= 1 /\ BUG = FALSE
ConstInitBug == P \in Int /\ P >= 1 /\ BUG = TRUE

IsFloor(q, num, den) == q * den <= num /\ num < (q + 1) * den
IsCeil(q, num, den)  == (q - 1) * den < num /\ num <= q * den

\* the state is well-formed and the last step did not lower the rate
IndInv == A >= 0 /\ S >= 0 /\ pA >= 0 /\ pS >= 0 /\ (A + 1) * (pS + P) >= (pA + 1) * (S + P)
IndInit == A \in Int /\ S \in Int /\ pA \in Int /\ pS \in Int /\ IndInv
Init == A = 0 /\ S = 0 /\ pA = 0 /\ pS = 0

Remember == pA' = A /\ pS' = S

Deposit == \E x \in Int : \E s \in Int :
  x >= 0 /\ s >= 0 /\ IsFloor(s, x * (S + P), A + 1) /\ A' = A + x /\ S' = S + s /\ Remember
MintShares == \E s \in Int : \E a \in Int :
  s >= 0 /\ a >= 0 /\ IsCeil(a, s * (A + 1), S + P) /\ A' = A + a /\ S' = S + s /\ Remember
Withdraw == \E a \in Int : \E s \in Int :
  /\ a >= 0 /\ a <= A /\ s >= 0 /\ s <= S
  /\ (IF BUG THEN IsFloor(s, a * (S + P), A + 1) ELSE IsCeil(s, a * (S + P), A + 1))
  /\ A' = A - a /\ S' = S - s /\ Remember
Redeem == \E s \in Int : \E a \in Int :
  s >= 0 /\ s <= S /\ a >= 0 /\ a <= A /\ IsFloor(a, s * (A + 1), S + P) /\ A' = A - a /\ S' = S - s /\ Remember
Donate == \E x \in Int : x >= 0 /\ A' = A + x /\ S' = S /\ Remember

Next == Deposit \/ MintShares \/ Withdraw \/ Redeem \/ Donate \/ (UNCHANGED <<A, S>> /\ Remember)
=============================================================================
