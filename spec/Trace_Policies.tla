-------------------------- MODULE Trace_Policies --------------------------
(***************************************************************************)
(* Trace validation for Policies.tla (see Trace_RoleTransfer for the       *)
(* conventions): one state per recorded line, violations collected, the    *)
(* rest of a run skipped after its first violation.                        *)
(***************************************************************************)
EXTENDS Policies, TLC, Json, IOUtils

Rec == ndJsonDeserialize(IOEnv.TRACE)

VARIABLES l, g, dead, cnt
vars == <<l, g, dead, cnt>>

ToSet(s) == {s[i] : i \in DOMAIN s}
Norm(ev) == [ev EXCEPT !.op = [op |-> ev.op.op, sg |-> ToSet(ev.op.sg), rs |-> ToSet(ev.op.rs),
                                th |-> ev.op.th, w |-> ev.op.w, who |-> ev.op.who, amt |-> ev.op.amt,
                                per |-> ev.op.per, ctx |-> ev.op.ctx, auth |-> ToSet(ev.op.auth),
                                dt |-> ev.op.dt]]

Init == l = 1 /\ g = [fl |-> "none"] /\ dead = FALSE /\ cnt = [m \in Monitors |-> 0]

Report(ev, m) == PrintT(<<"VIOL", ToJson([run |-> ev.run, i |-> ev.i, line |-> l, mon |-> m,
                                          prop |-> PropOf(m), key |-> Key(m, g, ev)])>>)

Next ==
  /\ l <= Len(Rec)
  /\ l' = l + 1
  /\ LET raw == Rec[l] IN
     IF raw.op.op = "reset"
     THEN g' = GInit(raw.op.flavour, raw.obs, raw.op.maxw) /\ dead' = FALSE /\ UNCHANGED cnt
     ELSE IF dead THEN UNCHANGED <<g, dead, cnt>>
     ELSE LET ev == Norm(raw)  f == Failing(g, ev) IN
          /\ \A m \in f : Report(ev, m)
          /\ dead' = (f # {})
          /\ g' = GNext(g, ev)
          /\ cnt' = [m \in Monitors |-> cnt[m] + IF Ante(m, g, ev) THEN 1 ELSE 0]
  /\ (l = Len(Rec) => PrintT(<<"DONE", l, ToJson(cnt')>>))

Spec == Init /\ [][Next]_vars
=============================================================================
