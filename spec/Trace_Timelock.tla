-------------------------- MODULE Trace_Timelock --------------------------
(***************************************************************************)
(* Trace validation for Timelock.tla: reads the ndjson trace recorded from *)
(* the real code (env TRACE), advances the ghost state by each recorded     *)
(* step and evaluates every monitor on it.  A reset event carries the       *)
(* predecessor field of every operation of the run (`pred`, id -> id|none)  *)
(* and the initial minimum delay (obs.min).                                 *)
(***************************************************************************)
EXTENDS Timelock, TLC, Json, IOUtils

Rec == ndJsonDeserialize(IOEnv.TRACE)

VARIABLES l, g, dead, cnt
vars == <<l, g, dead, cnt>>

Norm(ev) == [ev EXCEPT !.op = [op |-> ev.op.op, id |-> ev.op.id, delay |-> ev.op.delay,
                                chg |-> ev.op.chg, dt |-> ev.op.dt]]

Init == l = 1 /\ g = GInit([none |-> NoPred], 0) /\ dead = FALSE /\ cnt = [m \in Monitors |-> 0]

Report(ev, m) == PrintT(<<"VIOL", ToJson([run |-> ev.run, i |-> ev.i, line |-> l, mon |-> m,
                                          prop |-> PropOf(m), key |-> Key(m, g, ev)])>>)

Next ==
  /\ l <= Len(Rec)
  /\ l' = l + 1
  /\ LET raw == Rec[l] IN
     IF raw.op.op = "reset" THEN g' = GInit(raw.pred, raw.obs.min) /\ dead' = FALSE /\ UNCHANGED cnt
     ELSE IF dead THEN UNCHANGED <<g, dead, cnt>>
     ELSE LET ev == Norm(raw)  f == Failing(g, ev) IN
          /\ \A m \in f : Report(ev, m)
          /\ dead' = (f # {})
          /\ g' = GNext(g, ev)
          /\ cnt' = [m \in Monitors |-> cnt[m] + IF Ante(m, g, ev) THEN 1 ELSE 0]
  /\ (l = Len(Rec) => PrintT(<<"DONE", l, ToJson(cnt')>>))

Spec == Init /\ [][Next]_vars
=============================================================================
