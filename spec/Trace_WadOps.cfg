CONSTANTS
  SD = 18
  WB = 128
INIT Init
NEXT Next
CHECK_DEADLOCK FALSE
