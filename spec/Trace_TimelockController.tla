---------------------- MODULE Trace_TimelockController ----------------------
(***************************************************************************)
(* Trace validation for TimelockController.tla (C09).  The reset event     *)
(* carries the operation table (`optab`: name -> [call, pred, salt]), the  *)
(* accounts whose account contract refuses (`deny`) and, in obs, the       *)
(* initial minimum delay and role members.                                 *)
(***************************************************************************)
EXTENDS TimelockController, TLC, Json, IOUtils

Rec == ndJsonDeserialize(IOEnv.TRACE)

VARIABLES l, g, dead, cnt
vars == <<l, g, dead, cnt>>

ToSet(s) == {s[i] : i \in DOMAIN s}
Norm(ev) ==
  [ev EXCEPT !.op = [op |-> ev.op.op, id |-> ev.op.id, call |-> ev.op.call, who |-> ev.op.who, auth |-> ev.op.auth,
                     delay |-> ev.op.delay, entry |-> ev.op.entry, metas |-> ev.op.metas, sub |-> ev.op.sub,
                     ctxs |-> ev.op.ctxs, xauth |-> ToSet(ev.op.xauth), xskip |-> ev.op.xskip, dt |-> ev.op.dt],
             !.obs = [min |-> ev.obs.min, admin |-> ev.obs.admin, roles |-> ToSet(ev.obs.roles),
                      radm |-> ev.obs.radm, ops |-> ev.obs.ops]]

Init == /\ l = 1 /\ dead = FALSE /\ cnt = [m \in Monitors |-> 0]
        /\ g = GInit([none |-> [call |-> "none", pred |-> "none", salt |-> 0]], {}, 0, {})

Report(ev, m) == PrintT(<<"VIOL", ToJson([run |-> ev.run, i |-> ev.i, line |-> l, mon |-> m,
                                          prop |-> PropOf(m), key |-> Key(m, g, ev)])>>)

Next ==
  /\ l <= Len(Rec)
  /\ l' = l + 1
  /\ LET raw == Rec[l] IN
     IF raw.op.op = "reset"
     THEN /\ g' = GInit(raw.optab, ToSet(raw.deny), raw.obs.min, ToSet(raw.obs.roles))
          /\ dead' = FALSE /\ UNCHANGED cnt
     ELSE IF dead THEN UNCHANGED <<g, dead, cnt>>
     ELSE LET ev == Norm(raw)  f == Failing(g, ev) IN
          /\ \A m \in f : Report(ev, m)
          /\ dead' = (f # {})
          /\ g' = GNext(g, ev)
          /\ cnt' = [m \in Monitors |-> cnt[m] + IF Ante(m, g, ev) THEN 1 ELSE 0]
  /\ (l = Len(Rec) => PrintT(<<"DONE", l, ToJson(cnt')>>))

Spec == Init /\ [][Next]_vars
=============================================================================
