----------------------------- MODULE Trace_Rwa -----------------------------
(***************************************************************************)
(* Trace validation: reads the ndjson trace recorded from the real RWA      *)
(* token (env TRACE), advances the ghost state of Rwa.tla by each recorded  *)
(* step and evaluates every monitor on it.  Violations are collected        *)
(* (printed as VIOL lines); after a violation of a property the monitors of that property are       *)
(* skipped and validation resumes at the next reset event.  `cnt` counts,   *)
(* per monitor, the steps on which its antecedent held.                     *)
(***************************************************************************)
EXTENDS Rwa, TLC, Json, IOUtils

Rec == ndJsonDeserialize(IOEnv.TRACE)

VARIABLES l, g, dead, cnt
vars == <<l, g, dead, cnt>>

ToSet(s) == {s[i] : i \in DOMAIN s}
Norm(ev) == [op    |-> [op |-> ev.op.op, from |-> ev.op.from, to |-> ev.op.to, sp |-> ev.op.sp,
                        amt |-> ev.op.amt, flag |-> ev.op.flag, until |-> ev.op.until,
                        auth |-> ToSet(ev.op.auth), dt |-> ev.op.dt],
             now   |-> ev.now, res |-> ev.res, obs |-> ev.obs,
             calls |-> [i \in 1..Len(ev.calls) |-> ev.calls[i]],
             evs   |-> [i \in 1..Len(ev.evs) |-> ev.evs[i]],
             run   |-> ev.run, i |-> ev.i]

Init == l = 1 /\ g = GInit({}) /\ dead = {} /\ cnt = [m \in Monitors |-> 0]

Report(ev, m) == PrintT(<<"VIOL", ToJson([run |-> ev.run, i |-> ev.i, line |-> l, mon |-> m,
                                          prop |-> PropOf(m), key |-> Key(m, g, ev), after |-> dead])>>)

Next ==
  /\ l <= Len(Rec)
  /\ l' = l + 1
  /\ LET raw == Rec[l] IN
     \* the universe of a run is the set of accounts its reset event reports balances for
     IF raw.op.op = "reset" THEN g' = GInit(ToSet(raw.op.accts)) /\ dead' = {} /\ UNCHANGED cnt
     ELSE LET ev == Norm(raw)  f == {m \in Failing(g, ev) : PropOf(m) \notin dead} IN
          /\ \A m \in f : Report(ev, m)
          /\ dead' = dead \cup {PropOf(m) : m \in f}
          /\ g' = GNext(g, ev)
          /\ cnt' = [m \in Monitors |-> cnt[m] + IF Ante(m, g, ev) THEN 1 ELSE 0]
  /\ (l = Len(Rec) => PrintT(<<"DONE", l, ToJson(cnt')>>))

Spec == Init /\ [][Next]_vars
=============================================================================
