CONSTANTS
  LimRules = 15
  LimSigners = 15
  LimPolicies = 5
INIT Init
NEXT Next
CHECK_DEADLOCK FALSE
