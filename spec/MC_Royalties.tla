---------------------------- MODULE MC_Royalties ----------------------------
(* Implementation-shaped model of the royalties extension behind the nft-royalties example's gates. *)
EXTENDS Royalties, TLC, Json

CONSTANTS Depth, Emit, BUG, Price     \* BUG: "" | "default_wins" | "bps_10001" | "remove_keeps"

VARIABLES nextId, owners, defR, tokR, g, viol, hist
vars == <<nextId, owners, defR, tokR, g, viol, hist>>
View == <<nextId, owners, defR, tokR, g, viol, Len(hist)>>
Admin == "a"
Manager == "m"
Self == "self"
Toks == 0..2
Unset == [recv |-> None, bps |-> 0]

MaxBps == IF BUG = "bps_10001" THEN 10001 ELSE 10000
ImplOk(o) ==
  CASE o.op = "mint"         -> Admin \in o.auth /\ nextId <= 2
    [] o.op = "mint_royalty" -> Admin \in o.auth /\ nextId <= 2 /\ o.bps <= MaxBps
    [] o.op = "set_default"  -> o.who = Manager /\ o.who \in o.auth /\ o.bps <= MaxBps
    [] o.op = "set_token"    -> o.who = Manager /\ o.who \in o.auth /\ o.bps <= MaxBps /\ o.tok \in owners
    [] o.op = "remove_token" -> o.who = Manager /\ o.who \in o.auth /\ o.tok \in owners
ImplEffect(o) ==
  CASE o.op = "mint"         -> owners' = owners \cup {nextId} /\ nextId' = nextId + 1 /\ UNCHANGED <<defR, tokR>>
    [] o.op = "mint_royalty" -> /\ owners' = owners \cup {nextId} /\ nextId' = nextId + 1
                                /\ tokR' = [tokR EXCEPT ![nextId] = [recv |-> o.recv, bps |-> o.bps]] /\ UNCHANGED defR
    [] o.op = "set_default"  -> defR' = [recv |-> o.recv, bps |-> o.bps] /\ UNCHANGED <<nextId, owners, tokR>>
    [] o.op = "set_token"    -> tokR' = [tokR EXCEPT ![o.tok] = [recv |-> o.recv, bps |-> o.bps]] /\ UNCHANGED <<nextId, owners, defR>>
    [] o.op = "remove_token" -> tokR' = (IF BUG = "remove_keeps" THEN tokR ELSE [tokR EXCEPT ![o.tok] = Unset])
                                /\ UNCHANGED <<nextId, owners, defR>>

InfoOf(t, ow, d, tr) ==
  IF t \notin ow THEN [ok |-> FALSE, recv |-> None, amt |-> 0]
  ELSE LET s == IF tr[t].recv # None /\ BUG # "default_wins" THEN tr[t] ELSE d IN
       [ok |-> TRUE, recv |-> s.recv, amt |-> Trunc(Price, s.bps)]
ObsOf(ow, d, tr) == [price |-> Price, ids |-> [t \in Toks |-> t], info |-> [t \in Toks |-> InfoOf(t, ow, d, tr)]]

Op(op, tok, recv, bps, who, auth) == [op |-> op, tok |-> tok, recv |-> recv, bps |-> bps, who |-> who, auth |-> auth]
Ops ==
  {Op("mint", 0, None, 0, Admin, au) : au \in {{}, {Admin}}}
  \cup {Op("mint_royalty", 0, r, b, Admin, {Admin}) : r \in {"b", "c"}, b \in {0, 250, 10000, 10001}}
  \cup {Op("set_default", 0, r, b, w, {w}) : r \in {"b"}, b \in {0, 333, 10001}, w \in {Manager, Admin}}
  \cup {Op("set_token", t, "c", b, Manager, au) : t \in Toks, b \in {1, 9999}, au \in {{}, {Manager}}}
  \cup {Op("remove_token", t, None, 0, Manager, {Manager}) : t \in Toks}

Init == /\ nextId = 0 /\ owners = {} /\ defR = [recv |-> Admin, bps |-> 1000]
        /\ tokR = [t \in Toks |-> Unset]
        /\ g = GInit(Admin, Manager, Self, ObsOf(owners, defR, tokR))
        /\ viol = {} /\ hist = <<>>
Step(o) ==
  LET ok == ImplOk(o)
      ev == [op |-> o, res |-> IF ok THEN "ok" ELSE "fail", obs |-> ObsOf(owners', defR', tokR')]
  IN /\ IF ok THEN ImplEffect(o) ELSE UNCHANGED <<nextId, owners, defR, tokR>>
     /\ g' = GNext(g, ev)
     /\ viol' = viol \cup {<<m, Key(m, g, ev)>> : m \in Failing(g, ev)}
     /\ hist' = Append(hist, o @@ [exp |-> ev.res])
Next == Len(hist) < Depth /\ \E o \in Ops : Step(o)
Bound == TRUE
EmitReplay == Emit => PrintT(<<"REPLAY", ToJson(hist')>>)
NoViolation == viol = {}
Refines == g.minted = owners /\ g.def = defR /\ \A t \in Toks : (HasTok(g, t) <=> tokR[t].recv # None)
=============================================================================
