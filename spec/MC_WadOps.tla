----------------------------- MODULE MC_WadOps -----------------------------
(***************************************************************************)
(* A "mini-Wad": the operations of wad.rs transcribed statement by         *)
(* statement over a WB-bit raw type with scale 10^SD (e.g. 9 bits, scale   *)
(* 10^2), so that TLC can enumerate ALL inputs.  For every operation and   *)
(* every (x, y):                                                           *)
(*   Correct     the transcribed code stays inside the envelope of X03     *)
(*               written with TLC's native integers (value = trunc(p/dv),  *)
(*               failure exactly as X03 allows);                           *)
(*   JudgeExact  the BigInt judge of WadOps.tla (the one that judges the   *)
(*               recorded full-scale traces) accepts a candidate result -  *)
(*               the code's, an error, the defined value, its neighbours,  *)
(*               its negation, 0 - exactly when the native envelope does;  *)
(*   ClassAgrees the judge's case class equals the natively computed one   *)
(*               and is one of ReachableClasses; ClassesReached: each of   *)
(*               them occurs at this scale;                                *)
(*   NoViolation the judge accepts the code's result (violated by the      *)
(*               seeded BUG configurations: the monitors can fail).        *)
(* A state is (fn, x); the invariants quantify over the second operand.    *)
(* (Initial states are work units, see Init.)                              *)
(***************************************************************************)
EXTENDS WadOps, TLC

CONSTANTS BUG,      \* "" | "down_floor" | "pow_extra_square" | "abs_wraps" | "range_zero" | "add_strict"
          MaxExp    \* exponents 0..MaxExp for checked_pow

VARIABLES fn, x
vars == <<fn, x>>

MinN == -P2(WB - 1)
MaxN == P2(WB - 1) - 1
Range == MinN..MaxN
FitsN(v) == v >= MinN /\ v <= MaxN
RECURSIVE P10N(_)
P10N(k) == IF k = 0 THEN 1 ELSE 10 * P10N(k - 1)
SN == P10N(SD)
PN == CHOOSE k \in 0..8 : P10N(k) <= MaxN /\ P10N(k + 1) > MaxN
DecRange == 0..(SD + PN + 2)

Abs(v) == IF v < 0 THEN -v ELSE v
Sgn(v) == IF v < 0 THEN -1 ELSE IF v > 0 THEN 1 ELSE 0
\* Rust `/` (truncating), for z # 0
TruncDiv(r, z) == Sgn(r) * Sgn(z) * (Abs(r) \div Abs(z))
Err == 999999          \* sentinel outside every range

\* ---- the code (overflow checks on) -----------------------------------------------------------
CMul(a, b) == IF FitsN(a * b) THEN a * b ELSE Err          \* checked_mul, and `*` (panics)
CAdd(a, b) == IF (IF BUG = "add_strict" THEN a + b >= MinN /\ a + b < MaxN ELSE FitsN(a + b)) THEN a + b ELSE Err
CSub(a, b) == IF FitsN(a - b) THEN a - b ELSE Err
\* native `/`: panics on a zero divisor and on MIN / -1
NDiv(a, n) == IF n = 0 \/ (a = MinN /\ n = -1) THEN Err ELSE TruncDiv(a, n)
\* fn pow10(e, exp)
Pow10(k) == IF k > PN THEN Err ELSE P10N(k)
\* the scaling division of the conversions
DownDiv(a, f) == IF BUG = "down_floor" THEN (a - (a % f)) \div f ELSE TruncDiv(a, f)

FromInteger(n) == CMul(n, SN)
ToInteger(a) == TruncDiv(a, SN)
FromToken(a, d) ==
  IF d = SD THEN a
  ELSE IF d < SD THEN LET f == Pow10(SD - d) IN IF f = Err THEN Err ELSE CMul(a, f)
  ELSE LET f == Pow10(d - SD) IN
       IF f = Err THEN (IF BUG = "range_zero" THEN 0 ELSE Err) ELSE DownDiv(a, f)
ToToken(a, d) ==
  IF d = SD THEN a
  ELSE IF d < SD THEN LET f == Pow10(SD - d) IN IF f = Err THEN Err ELSE DownDiv(a, f)
  ELSE LET f == Pow10(d - SD) IN IF f = Err THEN Err ELSE CMul(a, f)
CheckedDivInt(a, n) == IF n = 0 THEN Err ELSE NDiv(a, n)
AbsW(a) == IF a = MinN THEN (IF BUG = "abs_wraps" THEN MinN ELSE Err) ELSE Abs(a)
NegW(a) == IF a = MinN THEN Err ELSE -a
MinW(a, b) == IF a <= b THEN a ELSE b
MaxW(a, b) == IF a >= b THEN a ELSE b
\* (self.0 * rhs.0) / WAD_SCALE   and   (self.0 * WAD_SCALE) / rhs.0
MulOp(a, b) == IF ~FitsN(a * b) THEN Err ELSE TruncDiv(a * b, SN)
DivOp(a, b) == IF ~FitsN(a * SN) THEN Err ELSE NDiv(a * SN, b)

\* checked_mul_div(x, y, z) with truncation - exact for every input by C12
CMD(a, b, z) == IF z = 0 THEN Err ELSE LET q == TruncDiv(a * b, z) IN IF FitsN(q) THEN q ELSE Err
\* the `while exponent > 0` loop of checked_pow
RECURSIVE PowLoopG(_, _, _, _)
PowLoopG(e, result, base, always) ==
  IF e = 0 THEN result
  ELSE LET r1 == IF e % 2 = 1 THEN CMD(result, base, SN) ELSE result
           e1 == e \div 2 IN
       IF r1 = Err THEN Err
       ELSE IF e1 > 0 \/ always                  \* `if exponent > 0` guards the squaring
       THEN LET b1 == CMD(base, base, SN) IN IF b1 = Err THEN Err ELSE PowLoopG(e1, r1, b1, always)
       ELSE PowLoopG(e1, r1, base, always)
PowLoop(e, result, base) == PowLoopG(e, result, base, BUG = "pow_extra_square")
CheckedPow(a, n) ==
  IF n = 0 THEN SN ELSE IF n = 1 THEN a ELSE IF a = 0 THEN 0 ELSE IF a = SN THEN a
  ELSE PowLoop(n, SN, a)

UnaryFns == {"from_integer", "to_integer", "abs", "neg"}
DecFns == {"from_token", "from_price", "to_token"}
Second(f) == IF f \in UnaryFns THEN {0} ELSE IF f \in DecFns THEN DecRange
             ELSE IF f = "cpow" THEN 0..MaxExp ELSE Range

Impl(f, a, b) ==
  CASE f = "from_integer" -> FromInteger(a)
    [] f = "to_integer"   -> ToInteger(a)
    [] f \in {"from_token", "from_price"} -> FromToken(a, b)
    [] f = "to_token"     -> ToToken(a, b)
    [] f \in {"cadd", "add"} -> CAdd(a, b)
    [] f \in {"csub", "sub"} -> CSub(a, b)
    [] f \in MulIntFns    -> CMul(a, b)
    [] f = "cdiv_int"     -> CheckedDivInt(a, b)
    [] f = "div_int"      -> NDiv(a, b)
    [] f = "abs"          -> AbsW(a)
    [] f = "neg"          -> NegW(a)
    [] f = "min"          -> MinW(a, b)
    [] f = "max"          -> MaxW(a, b)
    [] f = "mul"          -> MulOp(a, b)
    [] f = "div"          -> DivOp(a, b)
    [] f = "cpow"         -> CheckedPow(a, b)

\* ---- X03 with native integers ------------------------------------------------------------------
\* numerator and divisor of the defined value trunc(p / dv)  (the same reduction as PD, natively)
NPD(f, kind, k, a, b) ==
  CASE kind = "up"    -> <<a * P10N(k), 1>>
    [] kind = "down"  -> <<a, P10N(k)>>
    [] kind = "id"    -> <<a, 1>>
    [] f \in {"cadd", "add"} -> <<a + b, 1>>
    [] f \in {"csub", "sub"} -> <<a - b, 1>>
    [] f \in MulIntFns -> <<a * b, 1>>
    [] f \in DivIntFns -> <<a, b>>
    [] f = "abs"      -> <<Abs(a), 1>>
    [] f = "neg"      -> <<-a, 1>>
    [] f = "min"      -> <<IF a <= b THEN a ELSE b, 1>>
    [] f = "max"      -> <<IF a >= b THEN a ELSE b, 1>>
    [] f = "mul"      -> <<a * b, SN>>
    [] f = "div"      -> <<a * SN, b>>
OutOfRange(f, b) == LET sh == Shape(f, b) IN sh.kind \in {"up", "down"} /\ sh.k > PN
\* the pure algorithm of the documentation: PowLoop without the shortcuts of checked_pow
NPow(a, n) == PowLoopG(n, SN, a, FALSE)

\* the defined value (Err: none - the call must fail)
NValue(f, a, b) ==
  IF f = "cpow" THEN NPow(a, b)
  ELSE IF OutOfRange(f, b) THEN Err
  ELSE LET sh == Shape(f, b)  pd == NPD(f, sh.kind, sh.k, a, b) IN
       IF pd[2] = 0 THEN Err
       ELSE LET q == TruncDiv(pd[1], pd[2]) IN IF FitsN(q) THEN q ELSE Err
\* the operators Wad * Wad and Wad / Wad may also fail when the intermediate product does not fit
NPhantom(f, a, b) == f \in WadFns /\ ~FitsN(NPD(f, "", 0, a, b)[1])
Envelope(f, a, b, r) == r = NValue(f, a, b) \/ (r = Err /\ NPhantom(f, a, b))

Sg(v) == IF v > 0 THEN "p" ELSE IF v < 0 THEN "n" ELSE "z"
NClass(f, a, b) ==
  IF f = "cpow"
  THEN "cpow_" \o (IF b = 0 THEN "e0" ELSE IF b = 1 THEN "e1" ELSE IF a = 0 THEN "b0" ELSE IF a = SN THEN "b1"
                   ELSE IF NPow(a, b) # Err THEN "gen_fits" ELSE "gen_over")
  ELSE IF OutOfRange(f, b) THEN f \o "_range"
  ELSE LET sh == Shape(f, b)  pd == NPD(f, sh.kind, sh.k, a, b)  p == pd[1]  dv == pd[2]
           tag == IF sh.kind \in {"up", "down", "id"} THEN sh.kind \o "_"
                  ELSE IF sh.kind = "ord" THEN (IF a < b THEN "lt_" ELSE IF a = b THEN "eq_" ELSE "gt_")
                  ELSE ""
           out == IF dv = 0 THEN "zero" ELSE IF ~FitsN(TruncDiv(p, dv)) THEN "over"
                  ELSE IF f \in WadFns /\ ~FitsN(p) THEN "phantom"
                  ELSE IF ~Divides(f, sh.kind) THEN "fits"
                  ELSE IF p % Abs(dv) = 0 THEN "fits_x"
                  ELSE IF Sgn(p) * Sgn(dv) > 0 THEN "fits_p" ELSE "fits_n" IN
       f \o "_" \o tag \o out

\* ---- the event the harness would log -------------------------------------------------------------
ToLog(v) == [n |-> IF v < 0 THEN 1 ELSE 0, m |-> MagOf(Abs(v))]
\* witnesses of checked_pow: the values of the successive truncating multiplications of the pure
\* algorithm, up to the first one that does not fit
RECURSIVE NWit(_, _, _)
NWit(e, result, base) ==
  IF e = 0 THEN <<>>
  ELSE LET odd == e % 2 = 1
           m == IF odd THEN CMD(result, base, SN) ELSE result
           e1 == e \div 2 IN
       IF m = Err THEN <<>>
       ELSE (IF odd THEN <<ToLog(m)>> ELSE <<>>) \o
            (IF e1 = 0 THEN <<>>
             ELSE LET s == CMD(base, base, SN) IN
                  IF s = Err THEN <<>> ELSE <<ToLog(s)>> \o NWit(e1, m, s))
Ev(f, a, b, r) ==
  [fn |-> f, a |-> ToLog(a), b |-> ToLog(IF f \in DecFns THEN 0 ELSE b), dec |-> IF f \in DecFns THEN b ELSE 0,
   res |-> IF r = Err THEN "fail" ELSE "ok", q |-> ToLog(IF r = Err THEN 0 ELSE r), how |-> "val",
   w |-> IF f = "cpow" THEN NWit(b, SN, a) ELSE <<>>]

\* candidate results around the defined value
Cands(f, a, b) ==
  LET v == NValue(f, a, b) IN
  ({Impl(f, a, b), Err, 0, MinN, MaxN} \cup (IF v = Err THEN {} ELSE {v, v + 1, v - 1, -v}))
  \cap (Range \cup {Err})

\* initial states are work units (operation, residue class of x) so that TLC's workers share the load
Blocks == 8
Init == fn \in Fns /\ x \in {Err + k : k \in 0..(Blocks - 1)}
Next == x >= Err /\ fn' = fn /\ x' \in {v \in Range : v % Blocks = x - Err}
Live == x < Err

Correct == Live => \A y \in Second(fn) : Envelope(fn, x, y, Impl(fn, x, y))
ClassKnown == Live => \A y \in Second(fn) : NClass(fn, x, y) \in ReachableClasses
NoViolation == Live => \A y \in Second(fn) : Failing(Ev(fn, x, y, Impl(fn, x, y))) = {}
JudgeExact ==
  Live => \A y \in Second(fn) : \A r \in Cands(fn, x, y) :
    \A j \in {Judge(Ev(fn, x, y, r))} : ~j.badw /\ ((j.fail = {}) <=> Envelope(fn, x, y, r))
ClassAgrees == Live => \A y \in Second(fn) : Judge(Ev(fn, x, y, Impl(fn, x, y))).cls = NClass(fn, x, y)
\* every class occurs at this scale (evaluated in one state only: it enumerates all cases)
ClassesReached ==
  (fn = "abs" /\ x = 0) =>
    \A c \in ReachableClasses : \E f \in Fns, a \in Range : \E y \in Second(f) : NClass(f, a, y) = c
=============================================================================
