------------------------------ MODULE SacAdmin ------------------------------
(***************************************************************************)
(* Beyond the listed properties (X02): administration of a Stellar Asset    *)
(* Contract (SAC) by an admin contract built with                           *)
(* packages/tokens/src/fungible/utils/sac_admin_generic (custom account,    *)
(* __check_auth) or sac_admin_wrapper (forwarding entry points), through    *)
(* examples/sac-admin-generic and examples/sac-admin-wrapper and a real SAC.*)
(*                                                                         *)
(*   X02  While the admin contract administers the SAC, the SAC's admin     *)
(*   functions (mint, clawback, set_authorized, set_admin) take effect only *)
(*   when the call is authorized by the admin contract's rules:             *)
(*   - generic flavour: the contract's authorization entry carries a valid  *)
(*     ed25519 signature of the authorization payload by the claimed key,   *)
(*     and that key is a registered operator for mint / clawback /          *)
(*     set_authorized -- a mint moreover keeps the operator's cumulative    *)
(*     minted amount within its minting limit -- or the chief for set_admin *)
(*     and for every other call made in the contract's name (a transfer of  *)
(*     its own balance, its own management entry points); never an unknown  *)
(*     or removed key, never an invalid signature;                          *)
(*   - wrapper flavour: only through the wrapper's entry points, with the   *)
(*     authorization of the named operator who holds the "manager" role     *)
(*     (mint, clawback, set_authorized) resp. of the wrapper's admin        *)
(*     (set_admin); the role changes only by the wrapper's admin;           *)
(*   - once the SAC's admin role was handed to somebody else, nothing the   *)
(*     admin contract accepts has any effect on the SAC.                    *)
(*   The SAC's balances, authorized flags and administrator change exactly  *)
(*   as the forwarded call says, and not at all when a call fails.          *)
(*   Converse stated by the generic example ("only chief can call other     *)
(*   functions such as assign_operator(), remove_operator() or              *)
(*   set_minting_limit()"): a management call carrying the chief's valid    *)
(*   signature is accepted, and so is set_admin on the SAC signed by the    *)
(*   chief while the contract administers the SAC (X02_chief_manages).      *)
(*   Converse stated by the library's README flow ("Minter -> SAC: mint ->  *)
(*   Success"): a registered operator's validly signed mint within its      *)
(*   limit, clawback of an available balance, or set_authorized is accepted *)
(*   while the contract administers the SAC (X02_operator_accepted).        *)
(*                                                                         *)
(* Event: op = [op, via, acct, amt, flag, key, sig, okey, who, auth]; res;  *)
(* obs = [admin, bal[h], authz[h], mgr] read back from the SAC (and the     *)
(* wrapper's has_role) after every step.  Operator registrations and        *)
(* minting limits have no getter: the ghost state follows them through the  *)
(* recorded successful calls.                                               *)
(*   via  "sac": the SAC function is called directly; "wrap": through the   *)
(*        wrapper's entry point with operator argument `who`; "adm": an     *)
(*        entry point of the admin contract itself.                         *)
(*   auth set of plain accounts whose authorization entry for exactly this  *)
(*        call is attached;  key/sig: the admin contract's own entry claims *)
(*        public key `key` ("none": no such entry); sig = "good" iff the    *)
(*        signature is that key's ed25519 signature of the payload.         *)
(***************************************************************************)
EXTENDS Integers, Sequences, FiniteSets

None == "none"
Self == "self"                         \* the admin contract (also a holder of the asset)
Holders == {"u", "v", "self"}
SacFns == {"mint", "clawback", "set_authorized", "set_admin"}
MgmtFns == {"assign", "remove", "set_limit", "update_limit"}
RoleFns == {"grant", "revoke"}

GInit(flavour, max, curr) ==
  [flavour |-> flavour,
   sacAdmin |-> Self,
   bal |-> [h \in Holders |-> 0], authz |-> [h \in Holders |-> TRUE],
   chief |-> "kc", ops |-> {"ko"},
   lim |-> [k \in {"ko"} |-> [max |-> max, curr |-> curr]],
   wadmin |-> "a", mgr |-> {"m"}]

Generic(g) == g.flavour = "generic"
HasLim(g, k) == k \in DOMAIN g.lim
SetLim(g, k, l) == [g EXCEPT !.lim = [x \in DOMAIN g.lim \cup {k} |-> IF x = k THEN l ELSE g.lim[x]]]

\* the admin contract's rules were consulted for this SAC admin call
Own(g) == g.sacAdmin = Self

GNext(g, ev) ==
  LET o == ev.op IN
  IF ev.res # "ok" THEN g ELSE
  CASE o.op = "mint" ->
         LET g1 == [g EXCEPT !.bal[o.acct] = @ + o.amt] IN
         IF Generic(g) /\ Own(g) /\ HasLim(g, o.key)
         THEN SetLim(g1, o.key, [g.lim[o.key] EXCEPT !.curr = @ + o.amt]) ELSE g1
    [] o.op = "clawback"       -> [g EXCEPT !.bal[o.acct] = @ - o.amt]
    [] o.op = "set_authorized" -> [g EXCEPT !.authz[o.acct] = o.flag]
    [] o.op = "set_admin"      -> [g EXCEPT !.sacAdmin = o.acct]
    [] o.op = "xfer"           -> [g EXCEPT !.bal[Self] = @ - o.amt, !.bal[o.acct] = @ + o.amt]
    [] o.op = "assign"         -> [g EXCEPT !.ops = @ \cup {o.okey}]
    [] o.op = "remove"         -> [g EXCEPT !.ops = @ \ {o.okey}]
    [] o.op = "set_limit"      -> SetLim(g, o.okey, [max |-> o.amt, curr |-> 0])
    [] o.op = "update_limit"   -> IF HasLim(g, o.okey) THEN SetLim(g, o.okey, [g.lim[o.okey] EXCEPT !.max = o.amt]) ELSE g
    [] o.op = "grant"          -> [g EXCEPT !.mgr = @ \cup {o.acct}]
    [] o.op = "revoke"         -> [g EXCEPT !.mgr = @ \ {o.acct}]
    [] OTHER -> g

Monitors == {"X02_signature", "X02_role", "X02_limit", "X02_wrapper_gate", "X02_handover", "X02_effect",
             "X02_chief_manages", "X02_operator_accepted"}
PropOf(m) == "X02"

\* the call needs the generic admin contract's own authorization (its __check_auth decides)
InContractsName(g, o) ==
  Generic(g) /\ ((o.op \in SacFns /\ Own(g)) \/ o.op = "xfer" \/ o.op \in MgmtFns)

Ante(m, g, ev) ==
  LET o == ev.op  ok == ev.res = "ok" IN
  CASE m = "X02_signature"     -> ok /\ InContractsName(g, o)
    [] m = "X02_role"          -> ok /\ InContractsName(g, o)
    [] m = "X02_limit"         -> ok /\ Generic(g) /\ Own(g) /\ o.op = "mint"
    [] m = "X02_wrapper_gate"  -> ok /\ ~Generic(g) /\ ((o.op \in SacFns /\ Own(g)) \/ o.op \in RoleFns \/ o.op = "xfer" \/ o.op \in MgmtFns)
    [] m = "X02_handover"      -> ok /\ o.op \in SacFns /\ ~Own(g)
    [] m = "X02_effect"        -> TRUE
    [] m = "X02_chief_manages" -> /\ Generic(g) /\ o.key = g.chief /\ o.sig = "good"
                                  /\ \/ o.op = "assign" /\ o.okey \notin g.ops          \* (a stricter contract may refuse
                                     \/ o.op = "remove" /\ o.okey \in g.ops             \*  no-ops, zero limits, limits for
                                     \/ o.op = "set_limit" /\ o.amt > 0 /\ o.okey \in g.ops   \* unregistered keys)
                                     \/ o.op = "update_limit" /\ o.amt > 0 /\ HasLim(g, o.okey)
                                     \/ o.op = "set_admin" /\ o.via = "sac" /\ Own(g)   \* the SAC asks nothing else
    [] m = "X02_operator_accepted" ->
         /\ Generic(g) /\ Own(g) /\ o.via = "sac" /\ o.sig = "good" /\ o.key \in g.ops
         /\ \/ o.op = "mint" /\ HasLim(g, o.key) /\ o.amt > 0 /\ g.lim[o.key].curr + o.amt <= g.lim[o.key].max
               /\ g.authz[o.acct]                                    \* the SAC itself refuses a deauthorized receiver
            \/ o.op = "clawback" /\ o.amt > 0 /\ g.bal[o.acct] >= o.amt   \* ... and a missing or insufficient balance
            \/ o.op = "set_authorized"

Cons(m, g, ev) ==
  LET o == ev.op  g2 == GNext(g, ev) IN
  CASE m = "X02_signature"     -> o.key # None /\ o.sig = "good"
    [] m = "X02_role"          -> IF o.op \in {"mint", "clawback", "set_authorized"} THEN o.key \in g.ops ELSE o.key = g.chief
    [] m = "X02_limit"         -> HasLim(g, o.key) /\ g.lim[o.key].curr + o.amt <= g.lim[o.key].max
    [] m = "X02_wrapper_gate"  ->
         IF o.op \in SacFns
         THEN /\ o.via = "wrap"
              /\ IF o.op = "set_admin" THEN g.wadmin \in o.auth ELSE (o.who \in g.mgr /\ o.who \in o.auth)
         ELSE IF o.op \in RoleFns THEN o.who = g.wadmin /\ o.who \in o.auth
         ELSE FALSE          \* the wrapper is no custom account and has no management entry points
    [] m = "X02_handover"      -> g.sacAdmin \in o.auth
    [] m = "X02_effect"        ->
         /\ ev.obs.admin = g2.sacAdmin
         /\ \A h \in Holders : ev.obs.bal[h] = g2.bal[h] /\ ev.obs.bal[h] >= 0 /\ ev.obs.authz[h] = g2.authz[h]
         /\ (~Generic(g) => ev.obs.mgr = g2.mgr)
    [] m = "X02_chief_manages" -> ev.res = "ok"
    [] m = "X02_operator_accepted" -> ev.res = "ok"

Holds(m, g, ev) == Ante(m, g, ev) => Cons(m, g, ev)
\* situation of a refused chief / operator call: the admin contract's own entry point (the context handed to
\* __check_auth names the admin contract, not the SAC), a SAC function whose amount the library looks up at
\* argument index 2 (a genuine mint / clawback context has arguments 0 and 1 only), or something else
Key(m, g, ev) ==
  CASE m = "X02_chief_manages" ->
         IF ev.op.op \in MgmtFns THEN "management_context_is_not_the_sac" ELSE "chief_refused_on_the_sac"
    [] m = "X02_operator_accepted" ->
         IF ev.op.op \in {"mint", "clawback"} THEN "sac_call_has_no_argument_2" ELSE "set_authorized_refused"
    [] OTHER -> "other"
\* The next ghost state: the recorded call's prescribed effect, with the observable part (the SAC's state, the
\* wrapper's role holders) taken from what was read back.  The two agree unless X02_effect has just failed and
\* been reported; going on from the observed state keeps one deviation from being reported again at every
\* later step, so a run is judged to its end (the trace specification never skips the rest of a run).
GStep(g, ev) ==
  LET g2 == GNext(g, ev) IN
  [g2 EXCEPT !.sacAdmin = ev.obs.admin,
             !.bal = [h \in Holders |-> ev.obs.bal[h]],
             !.authz = [h \in Holders |-> ev.obs.authz[h]],
             !.mgr = IF Generic(g) THEN g2.mgr ELSE ev.obs.mgr]
Failing(g, ev) == {m \in Monitors : ~Holds(m, g, ev)}
=============================================================================
