-------------------------- MODULE MC_FeeForwarder --------------------------
(***************************************************************************)
(* Implementation-shaped model of packages/fee-abstraction/src/storage.rs   *)
(* (collect_fee_and_invoke, collect_fee with the Eager / Lazy approval      *)
(* strategies, the swap-and-pop allow-list Count / Token(i) / TokenIndex(t))*)
(* as wired by the two forwarder examples and by a thin contract over the   *)
(* library ("lib"), over Base fee tokens (allowance = amount + live_until)  *)
(* and a logging target.  Checked exhaustively against the monitors of      *)
(* FeeForwarder.tla; generator of the behaviours replayed on the real code. *)
(***************************************************************************)
EXTENDS FeeForwarder, TLC, Json

CONSTANTS Flavour,       \* "permissionless" | "permissioned" | "lib"
          Strategy,      \* "Eager" | "Lazy" (fixed by the example for the first two flavours)
          Fund,          \* balance of u and fw in every fee token at genesis
          Fees, Maxs,    \* fee / max fee amounts tried
          DEs,           \* expiration - now
          WithNeg,       \* TRUE: also -1 for fee, max and expiration - now (cfg files cannot write -1)
          DTs,           \* ledgers advanced before a call
          Users, Rels, RAuths, Diffs, TFns, TFails,
          FToks,         \* fee tokens used by forward / approve
          ApprAmts, ApprDEs,   \* pre-existing allowances: amount, lifetime
          LToks,         \* tokens of allow / disallow ({} : no list operations)
          Opers, OAuths, \* operators of allow / disallow and whether they authorize
          Depth, EmitEvery,
          BUG            \* "" or the name of a seeded model bug (non-vacuity configurations)

ASSUME Flavour = "permissionless" => Strategy = "Eager"
ASSUME Flavour = "permissioned" => Strategy = "Lazy"

VARIABLES bal, al,             \* fee tokens: balances, allowance(owner -> fw) = [amt, until]
          cnt, tokAt, idx,     \* allow-list: Count, Token(i), TokenIndex(t)
          tg,                  \* targets: [n, fn, x, who]
          now, g, viol, hist
vars == <<bal, al, cnt, tokAt, idx, tg, now, g, viol, hist>>
View == <<bal, al, cnt, tokAt, idx, tg, now, g, viol, Len(hist)>>

AllToks == {"t1", "t2", "t3"}
Acct == {"u", "r", "q", FW}
Tgts == {"tg1", "tg2"}
Slots == 0..3
Exec == {"r"}
Mgr == {"m"}
Now0 == 10

Neg == IF WithNeg THEN {-1} ELSE {}

(* the code, in its own order ------------------------------------------------*)
St(b, a, c, ta, ix, t) == [bal |-> b, al |-> a, cnt |-> c, tokAt |-> ta, idx |-> ix, tg |-> t]
Cur == St(bal, al, cnt, tokAt, idx, tg)

\* examples: relayer.require_auth() / #[only_role(relayer, "executor")]; the thin contract has no gate
RelayerOk(o) == CASE Flavour = "permissionless" -> o.rauth
                  [] Flavour = "permissioned"   -> o.rel \in Exec /\ o.rauth
                  [] OTHER                      -> TRUE
\* user.require_auth_for_args((fee_token, max_fee_amount, expiration_ledger, target, fn, args))
UserRootOk(o) == o.diff \in {"none", "noappr", "notgt"} \/ (BUG = "args_not_bound" /\ o.diff = "args")
ApproveAuth(o) == o.diff # "noappr"
TargetAuth(o) == o.tfn = "hit_auth" => o.diff # "notgt"
IsAllowed(t) == cnt = 0 \/ idx[t] # NoIdx

\* returns [ok, st]
Forward(o, t) ==
  LET exp  == t + o.de
      pre  == Eff(al[o.tok][o.user], t)                 \* token.allowance(user, contract)
      appr == (Strategy = "Eager" /\ BUG # "eager_keeps_higher") \/ pre.amt < o.max
      gate == /\ RelayerOk(o)
              /\ UserRootOk(o)
              /\ (BUG = "list_not_checked" \/ IsAllowed(o.tok))
              /\ o.user # FW                             \* InvalidUser
              /\ o.fee > 0 /\ (BUG = "fee_gt_max" \/ o.fee <= o.max)   \* validate_fee_bounds
      \* token.approve(user, contract, max, expiration): user's nested authorization, amount >= 0,
      \* a positive amount needs a live_until that is not in the past
      approveOk == ApproveAuth(o) /\ o.max >= 0 /\ (o.max > 0 => exp >= t)
      base == IF appr THEN [amt |-> o.max, until |-> exp] ELSE pre
      charge == /\ IF appr THEN approveOk ELSE exp >= t  \* validate_expiration_ledger
                /\ base.amt >= o.fee                     \* spend_allowance
                /\ bal[o.tok][o.user] >= o.fee           \* update
      target == ~o.tfail /\ TargetAuth(o)
      tg2 == [tg EXCEPT ![o.tgt] = [n |-> @.n + 1, fn |-> o.tfn, x |-> o.x,
                                    who |-> IF o.tfn = "hit_auth" THEN o.user ELSE None]]
      recip == IF Flavour = "permissioned" THEN FW ELSE o.rel
      bal2 == [bal EXCEPT ![o.tok] = Add(Add(@, o.user, -o.fee), recip, o.fee)]
      al2 == [al EXCEPT ![o.tok][o.user] = Nz([amt |-> base.amt - o.fee, until |-> base.until])]
  IN IF gate /\ charge /\ target THEN [ok |-> TRUE, st |-> St(bal2, al2, cnt, tokAt, idx, tg2)]
     \* seeded bug: target invoked first through a non-atomic call, a failing charge keeps its effect
     ELSE IF BUG = "target_first" /\ gate /\ target THEN [ok |-> FALSE, st |-> St(bal, al, cnt, tokAt, idx, tg2)]
     ELSE [ok |-> FALSE, st |-> Cur]

Approve(o, t) ==
  IF o.max >= 0 /\ (o.max > 0 => o.de >= 0)
  THEN [ok |-> TRUE, st |-> St(bal, [al EXCEPT ![o.tok][o.user] = [amt |-> o.max, until |-> t + o.de]],
                               cnt, tokAt, idx, tg)]
  ELSE [ok |-> FALSE, st |-> Cur]

\* #[only_role(operator, "manager")] on the permissioned example
OperOk(o) == Flavour = "permissioned" => (o.oper \in Mgr /\ o.oauth)

\* set_allowed_fee_token(token, true)
Allow(o) ==
  IF Flavour # "permissionless" /\ OperOk(o) /\ idx[o.tok] = NoIdx
  THEN [ok |-> TRUE, st |-> St(bal, al, cnt + 1, [tokAt EXCEPT ![cnt] = o.tok], [idx EXCEPT ![o.tok] = cnt], tg)]
  ELSE [ok |-> FALSE, st |-> Cur]

\* set_allowed_fee_token(token, false): swap and pop
Disallow(o) ==
  IF Flavour # "permissionless" /\ OperOk(o) /\ idx[o.tok] # NoIdx
  THEN LET ri == idx[o.tok]  li == cnt - 1  last == tokAt[li] IN
       IF ri # li
       THEN [ok |-> TRUE, st |-> St(bal, al, cnt - 1, [tokAt EXCEPT ![ri] = last, ![li] = None],
                                    IF BUG = "swap_no_index" THEN [idx EXCEPT ![o.tok] = NoIdx]
                                    ELSE [idx EXCEPT ![last] = ri, ![o.tok] = NoIdx], tg)]
       ELSE [ok |-> TRUE, st |-> St(bal, al, cnt - 1, [tokAt EXCEPT ![li] = None], [idx EXCEPT ![o.tok] = NoIdx], tg)]
  ELSE [ok |-> FALSE, st |-> Cur]

Run(o, t) == CASE o.op = "forward"  -> Forward(o, t)
               [] o.op = "approve"  -> Approve(o, t)
               [] o.op = "allow"    -> Allow(o)
               [] o.op = "disallow" -> Disallow(o)

(* observation through the getters --------------------------------------------*)
ObsOf(s, t) ==
  [bal |-> s.bal, al |-> EffAll(s.al, t), tg |-> s.tg,
   list |-> [cnt |-> s.cnt, at |-> [i \in 1..4 |-> s.tokAt[i - 1]], idx |-> s.idx,
             allowed |-> [k \in AllToks |-> s.cnt = 0 \/ s.idx[k] # NoIdx], enabled |-> s.cnt > 0,
             getter_ok |-> TRUE]]

(* operations ------------------------------------------------------------------*)
Op(op, dt, tok, fee, max, de, user, rel, rauth, diff, tfn, tfail, oper, oauth) ==
  [op |-> op, dt |-> dt, tok |-> tok, fee |-> fee, max |-> max, de |-> de, user |-> user, rel |-> rel,
   rauth |-> rauth, diff |-> diff, tfn |-> tfn, tfail |-> tfail, x |-> 1, tgt |-> "tg1",
   oper |-> oper, oauth |-> oauth]

\* Forward calls are the union of four small products around one plain call (fee 1, max 2, expiring
\* next ledger, user u, authorizing executor r, matching authorization, target "hit" in working mode):
\* amounts x lifetimes, authorization mismatch x target kind x failing mode, relayers, users.
Fwd(dt, tok, fee, max, de, user, rel, ra, diff, tfn, tf) ==
  Op("forward", dt, tok, fee, max, de, user, rel, ra, diff, tfn, tf, None, FALSE)
Ops ==
  {Fwd(dt, tok, fee, max, de, "u", "r", TRUE, "none", "hit", FALSE) :
     dt \in DTs, tok \in FToks, fee \in Fees \cup Neg, max \in Maxs \cup Neg, de \in DEs \cup Neg}
  \cup {Fwd(0, tok, 1, 2, 1, "u", "r", TRUE, diff, tfn, tf) :
     tok \in FToks, diff \in Diffs, tfn \in TFns, tf \in TFails}
  \cup {Fwd(0, tok, 1, 2, 1, "u", rel, ra, "none", "hit", FALSE) : tok \in FToks, rel \in Rels, ra \in RAuths}
  \cup {Fwd(0, tok, 1, 2, 1, user, "r", TRUE, "none", "hit", FALSE) : tok \in FToks, user \in Users}
  \cup {Op("approve", dt, tok, 0, am, de, "u", None, FALSE, "none", "hit", FALSE, None, FALSE) :
     dt \in DTs, tok \in FToks, am \in ApprAmts, de \in ApprDEs}
  \cup {Op(k, 0, tok, 0, 0, 0, None, None, FALSE, "none", "hit", FALSE, p, pa) :
     k \in {"allow", "disallow"}, tok \in LToks, p \in Opers, pa \in OAuths}

Init ==
  /\ bal = [t \in AllToks |-> [a \in Acct |-> IF a \in {"u", FW} THEN Fund ELSE 0]]
  /\ al = [t \in AllToks |-> [a \in Acct |-> NoAl]]
  /\ cnt = 0 /\ tokAt = [i \in Slots |-> None] /\ idx = [t \in AllToks |-> NoIdx]
  /\ tg = [t \in Tgts |-> [n |-> 0, fn |-> None, x |-> 0, who |-> None]]
  /\ now = Now0
  /\ g = GInit(ObsOf(Cur, Now0), Flavour, Strategy, Exec, Mgr)
  /\ viol = {} /\ hist = <<>>

Step(o) ==
  LET t  == now + o.dt
      r  == Run(o, t)
      ev == [op |-> o, now |-> t, res |-> IF r.ok THEN "ok" ELSE "fail", obs |-> ObsOf(r.st, t)]
  IN /\ now' = t
     /\ bal' = r.st.bal /\ al' = r.st.al /\ cnt' = r.st.cnt /\ tokAt' = r.st.tokAt /\ idx' = r.st.idx
     /\ tg' = r.st.tg
     /\ g' = GNext(g, ev)
     /\ viol' = viol \cup {<<m, Key(m, g, ev)>> : m \in Failing(g, ev)}
     /\ hist' = Append(hist, o @@ [exp |-> ev.res])

Next == \E o \in Ops : Step(o)
Spec == Init /\ [][Next]_vars

Bound == Len(hist) <= Depth
EmitReplay == (EmitEvery > 0 /\ RandomElement(1..EmitEvery) = 1) => PrintT(<<"REPLAY", ToJson(hist')>>)

NoViolation == viol = {}

\* the implementation-shaped state is the abstraction of the ghost state
Refines ==
  /\ g.bal = bal /\ g.tg = tg
  /\ AlMapEq(EffAll(al, now), EffAll(g.al, now))
  /\ cnt = Cardinality(g.list)
  /\ \A i \in Slots : IF i < cnt THEN tokAt[i] \in g.list /\ idx[tokAt[i]] = i ELSE tokAt[i] = None
  /\ \A t \in AllToks : (idx[t] # NoIdx) <=> (t \in g.list)
=============================================================================
