----------------------------- MODULE Registries -----------------------------
(***************************************************************************)
(* Property-level specification of the RWA registries of property C20      *)
(* (packages/tokens/src/rwa): every registry answers every query as the    *)
(* plain set / map / relation implied by the operations applied so far.    *)
(*                                                                         *)
(* One model, seven flavours (field `fl` of the ghost record):             *)
(*   "keys"    claim_issuer: signing keys <-> (topic, registry) pairs      *)
(*   "cti"     claim_topics_and_issuers: topics, issuers, topic <-> issuer *)
(*   "binder"  utils/token_binder: bound tokens (bucketed list)            *)
(*   "docs"    extensions/doc_manager: documents (bucketed map)            *)
(*   "irs"     identity_registry_storage: identity, profile, recovery link *)
(*   "modules" compliance: modules per hook                                *)
(*   "claims"  identity_claims: claims by id = f(issuer, topic), ids by     *)
(*             topic                                                       *)
(*                                                                         *)
(* An event is  [op |-> [op, a, b, c, xs, n], res |-> "ok" | "fail",       *)
(*               ret |-> the value returned ("none" if none),              *)
(*               obs |-> every public getter after the call]               *)
(* (a, b, c: names or "none"; xs: sequence of names; n: a number).         *)
(* The same operators judge every transition of MC_Registries (TLC,        *)
(* exhaustive) and every step recorded from the real code                  *)
(* (Trace_Registries).  JSON has neither sets nor tuples, so observations  *)
(* are records and sequences only; a fallible getter is logged as          *)
(* [ok |-> BOOLEAN, v |-> value].  `obs.full` says that the probes cover   *)
(* the whole universe and every index 0..count (one past the end).         *)
(*                                                                         *)
(* Capacity limits arrive with the reset event (`lim`), read by the        *)
(* harness from the library's public constants; MC_Registries scales them. *)
(***************************************************************************)
EXTENDS Naturals, Integers, Sequences, FiniteSets

None == "none"

ToSet(s) == {s[i] : i \in DOMAIN s}
NoDup(s) == Cardinality(ToSet(s)) = Len(s)
Occ(s, x) == Cardinality({i \in DOMAIN s : s[i] = x})
RemAt(s, i) == SubSeq(s, 1, i - 1) \o SubSeq(s, i + 1, Len(s))

\* finite maps as functions with a growing / shrinking domain
Put(f, k, v) == [x \in (DOMAIN f) \cup {k} |-> IF x = k THEN v ELSE f[x]]
Del(f, k) == [x \in (DOMAIN f) \ {k} |-> f[x]]
EmptyMap == <<>>

(* ghost state ------------------------------------------------------------*)
\* keys    S : set of <<key, topic, registry>>
\* cti     T : topics, I : trusted issuers, R : set of <<issuer, topic>>
\* binder  S : bound tokens
\* docs    D : name -> [uri, hash, ts]
\* irs     id : account -> identity, pr : account -> [type, cs], rec : old -> new
\* modules M : set of <<hook, module>>
\* claims  C : <<topic, issuer>> -> [data, scheme, uri, sig]
\* last : the observation after the previous call ("refused without effect")
GInit(fl, lim, obs) ==
  CASE fl = "keys"    -> [fl |-> fl, lim |-> lim, last |-> obs, S |-> {}]
    [] fl = "cti"     -> [fl |-> fl, lim |-> lim, last |-> obs, T |-> {}, I |-> {}, R |-> {}]
    [] fl = "binder"  -> [fl |-> fl, lim |-> lim, last |-> obs, S |-> {}]
    [] fl = "docs"    -> [fl |-> fl, lim |-> lim, last |-> obs, D |-> EmptyMap]
    [] fl = "irs"     -> [fl |-> fl, lim |-> lim, last |-> obs, id |-> EmptyMap, pr |-> EmptyMap, rec |-> EmptyMap]
    [] fl = "modules" -> [fl |-> fl, lim |-> lim, last |-> obs, M |-> {}]
    [] fl = "claims"  -> [fl |-> fl, lim |-> lim, last |-> obs, C |-> EmptyMap]
    [] OTHER          -> [fl |-> "?", lim |-> lim, last |-> obs]

(* how a successful call changes the plain set / map --------------------------*)
\* (total: an event that the property forbids must not make the evaluation itself fail)
CountriesOf(g, a) == IF a \in DOMAIN g.pr THEN g.pr[a].cs ELSE <<>>

GStep(g, o) ==
  CASE o.op = "allow"           -> [g EXCEPT !.S = @ \cup {<<o.a, o.b, o.c>>}]
    [] o.op = "remove"          -> [g EXCEPT !.S = @ \ {<<o.a, o.b, o.c>>}]
    [] o.op = "add_topic"       -> [g EXCEPT !.T = @ \cup {o.a}]
    [] o.op = "remove_topic"    -> [g EXCEPT !.T = @ \ {o.a}, !.R = {p \in @ : p[2] # o.a}]
    [] o.op = "add_issuer"      -> [g EXCEPT !.I = @ \cup {o.a}, !.R = @ \cup {<<o.a, t>> : t \in ToSet(o.xs)}]
    [] o.op = "remove_issuer"   -> [g EXCEPT !.I = @ \ {o.a}, !.R = {p \in @ : p[1] # o.a}]
    [] o.op = "update_issuer"   -> [g EXCEPT !.R = {p \in @ : p[1] # o.a} \cup {<<o.a, t>> : t \in ToSet(o.xs)}]
    [] o.op = "bind"            -> [g EXCEPT !.S = @ \cup {o.a}]
    [] o.op = "unbind"          -> [g EXCEPT !.S = @ \ {o.a}]
    [] o.op = "bind_batch"      -> [g EXCEPT !.S = @ \cup ToSet(o.xs)]
    [] o.op = "set_doc"         -> [g EXCEPT !.D = Put(@, o.a, [uri |-> o.b, hash |-> o.c, ts |-> o.n])]
    [] o.op = "remove_doc"      -> [g EXCEPT !.D = Del(@, o.a)]
    [] o.op = "add_identity"    -> [g EXCEPT !.id = Put(@, o.a, o.b), !.pr = Put(@, o.a, [type |-> o.c, cs |-> o.xs])]
    [] o.op = "modify_identity" -> [g EXCEPT !.id = Put(@, o.a, o.b)]
    [] o.op = "remove_identity" -> [g EXCEPT !.id = Del(@, o.a), !.pr = Del(@, o.a)]
    [] o.op = "recover"         ->
         IF o.a \in DOMAIN g.id /\ o.a \in DOMAIN g.pr /\ o.a # o.b
         THEN [g EXCEPT !.id = Put(Del(@, o.a), o.b, g.id[o.a]), !.pr = Put(Del(@, o.a), o.b, g.pr[o.a]),
                        !.rec = Put(@, o.a, o.b)]
         ELSE g
    [] o.op = "add_countries"   ->
         IF o.a \in DOMAIN g.pr THEN [g EXCEPT !.pr[o.a].cs = @ \o o.xs] ELSE g
    [] o.op = "modify_country"  ->
         IF o.n + 1 \in DOMAIN CountriesOf(g, o.a) THEN [g EXCEPT !.pr[o.a].cs[o.n + 1] = o.b] ELSE g
    [] o.op = "delete_country"  ->
         IF o.n + 1 \in DOMAIN CountriesOf(g, o.a) THEN [g EXCEPT !.pr[o.a].cs = RemAt(@, o.n + 1)] ELSE g
    [] o.op = "add_module"      -> [g EXCEPT !.M = @ \cup {<<o.a, o.b>>}]
    [] o.op = "remove_module"   -> [g EXCEPT !.M = @ \ {<<o.a, o.b>>}]
    \* add_claim(topic a, issuer b, data c, scheme n, uri xs[1], signature xs[2]): insert or overwrite;
    \* "add_invalid" is the same call while the issuer contract rejects the claim: never an effect
    [] o.op = "add_claim"       ->
         IF Len(o.xs) = 2
         THEN [g EXCEPT !.C = Put(@, <<o.a, o.b>>, [data |-> o.c, scheme |-> o.n, uri |-> o.xs[1], sig |-> o.xs[2]])]
         ELSE g
    [] o.op = "remove_claim"    -> [g EXCEPT !.C = Del(@, <<o.a, o.b>>)]
    [] OTHER                    -> g

\* the ops of each flavour (an op of another flavour is ignored)
OpsOf(fl) ==
  CASE fl = "keys"    -> {"allow", "remove"}
    [] fl = "cti"     -> {"add_topic", "remove_topic", "add_issuer", "remove_issuer", "update_issuer"}
    [] fl = "binder"  -> {"bind", "unbind", "bind_batch"}
    [] fl = "docs"    -> {"set_doc", "remove_doc"}
    [] fl = "irs"     -> {"add_identity", "modify_identity", "remove_identity", "recover", "add_countries",
                          "modify_country", "delete_country"}
    [] fl = "modules" -> {"add_module", "remove_module"}
    [] fl = "claims"  -> {"add_claim", "add_invalid", "remove_claim"}
    [] OTHER          -> {}

\* the plain set / map after the call (observation not yet recorded)
GAfter(g, ev) == IF ev.res = "ok" /\ ev.op.op \in OpsOf(g.fl) THEN GStep(g, ev.op) ELSE g

GNext(g, ev) == [GAfter(g, ev) EXCEPT !.last = ev.obs]

(* keys: signing keys <-> (topic, registry) ------------------------------------*)
KeysOfTopic(S, t) == {p[1] : p \in {q \in S : q[2] = t}}
PairsOfKey(S, k) == {<<p[2], p[3]>> : p \in {q \in S : q[1] = k}}

\* a list getter that may also refuse when there is nothing to list
ListIs(r, X) == IF X = {} THEN (~r.ok \/ r.v = <<>>) ELSE (r.ok /\ ToSet(r.v) = X)

QueryKeys(G, obs) ==
  /\ \A t \in DOMAIN obs.kft : ListIs(obs.kft[t], KeysOfTopic(G.S, t))
  /\ \A k \in DOMAIN obs.regs : ListIs(obs.regs[k], {p[2] : p \in PairsOfKey(G.S, k)})
  /\ \A k \in DOMAIN obs.kt : ToSet(obs.kt[k]) = {p[1] : p \in PairsOfKey(G.S, k)}
  /\ \A k \in DOMAIN obs.kr : ToSet(obs.kr[k]) = {p[2] : p \in PairsOfKey(G.S, k)}

\* a key is listed once per topic; a registry at most once per (topic, registry) pair of the key
EnumKeys(G, obs) ==
  /\ \A t \in DOMAIN obs.kft : NoDup(obs.kft[t].v)
  /\ \A k \in DOMAIN obs.regs :
       LET v == obs.regs[k].v IN
       \A r \in ToSet(v) : Occ(v, r) <= Cardinality({p \in PairsOfKey(G.S, k) : p[2] = r})

(* cti: claim topics, trusted issuers, topic <-> issuer --------------------------*)
IssuersOf(G, t) == {p[1] : p \in {q \in G.R : q[2] = t}}
TopicsOf(G, i) == {p[2] : p \in {q \in G.R : q[1] = i}}

QueryCti(G, obs) ==
  /\ ToSet(obs.topics) = G.T
  /\ ToSet(obs.issuers) = G.I
  /\ ToSet(obs.trusted) = G.I
  /\ \A t \in DOMAIN obs.ti :
       IF t \in G.T THEN obs.ti[t].ok /\ ToSet(obs.ti[t].v) = IssuersOf(G, t)
       ELSE ~obs.ti[t].ok \/ obs.ti[t].v = <<>>
  /\ \A i \in DOMAIN obs.it :
       IF i \in G.I THEN obs.it[i].ok /\ ToSet(obs.it[i].v) = TopicsOf(G, i)
       ELSE ~obs.it[i].ok \/ obs.it[i].v = <<>>
  /\ \A i \in DOMAIN obs.has :
       IF i \in G.I THEN obs.has[i].err = <<>> /\ ToSet(obs.has[i].yes) = TopicsOf(G, i)
       ELSE obs.has[i].yes = <<>>
  /\ obs.map.ok
  /\ {e.t : e \in ToSet(obs.map.v)} = G.T
  /\ \A e \in ToSet(obs.map.v) : ToSet(e.v) = IssuersOf(G, e.t)

EnumCti(G, obs) ==
  /\ NoDup(obs.topics) /\ NoDup(obs.issuers)
  /\ \A t \in DOMAIN obs.ti : NoDup(obs.ti[t].v)
  /\ \A i \in DOMAIN obs.it : NoDup(obs.it[i].v)
  /\ Len(obs.map.v) = Cardinality(G.T)
  /\ \A e \in ToSet(obs.map.v) : NoDup(e.v)

(* binder: bound tokens -----------------------------------------------------------*)
\* probes: isb <<[k, v]>> is_token_bound, idx <<[k, v]>> get_token_index (-1 refused),
\*         at <<[i, v]>> get_token_by_index ("none" refused); tokens = linked_tokens
QueryBinder(G, obs) ==
  /\ ToSet(obs.tokens) = G.S
  /\ \A p \in ToSet(obs.isb) : p.v <=> (p.k \in G.S)
  /\ \A p \in ToSet(obs.idx) :
       /\ (p.v >= 0) <=> (p.k \in G.S)
       /\ p.v >= 0 => (p.v < Len(obs.tokens) /\ obs.tokens[p.v + 1] = p.k)
  /\ \A p \in ToSet(obs.at) :
       IF p.i < Cardinality(G.S) THEN p.i < Len(obs.tokens) /\ p.v = obs.tokens[p.i + 1]
       ELSE p.v = None

EnumBinder(G, obs) ==
  /\ Len(obs.tokens) = Cardinality(G.S)
  /\ obs.full => {p.i : p \in ToSet(obs.at)} = 0..Len(obs.tokens)

(* docs: documents ------------------------------------------------------------------*)
\* probes: byname <<[k, ok, d]>> get_document, at <<[i, ok, k, d]>> get_document_by_index,
\*         buckets <<[b, v |-> <<[k, d]>>]>> get_documents(b); count = get_document_count
NDocs(G) == Cardinality(DOMAIN G.D)

QueryDocs(G, obs) ==
  /\ obs.count = NDocs(G)
  /\ \A p \in ToSet(obs.byname) : IF p.k \in DOMAIN G.D THEN p.ok /\ p.d = G.D[p.k] ELSE ~p.ok
  /\ \A p \in ToSet(obs.at) :
       IF p.i < NDocs(G) THEN p.ok /\ p.k \in DOMAIN G.D /\ p.d = G.D[p.k] ELSE ~p.ok
  /\ \A bk \in ToSet(obs.buckets) :
       /\ Len(bk.v) <= G.lim.bucket
       /\ \A e \in ToSet(bk.v) : e.k \in DOMAIN G.D /\ e.d = G.D[e.k]

RECURSIVE Flat(_)
Flat(bs) == IF bs = <<>> THEN <<>> ELSE [j \in DOMAIN Head(bs).v |-> Head(bs).v[j].k] \o Flat(Tail(bs))

\* with every index 0..count and every bucket probed: access by index and access by bucket
\* enumerate the same names in the same order, each exactly once
EnumDocs(G, obs) ==
  obs.full =>
    LET n == NDocs(G)
        byIndex == [j \in 1..n |-> obs.at[j].k]
    IN /\ Len(obs.at) = n + 1
       /\ \A j \in 1..(n + 1) : obs.at[j].i = j - 1
       /\ ToSet(byIndex) = DOMAIN G.D
       /\ Flat(obs.buckets) = byIndex

(* irs: identities, profiles, recovery links -------------------------------------------*)
QueryIrs(G, obs) ==
  /\ \A a \in DOMAIN obs.ident : obs.ident[a] = (IF a \in DOMAIN G.id THEN G.id[a] ELSE None)
  /\ \A a \in DOMAIN obs.prof :
       IF a \in DOMAIN G.pr
       THEN obs.prof[a].ok /\ obs.prof[a].type = G.pr[a].type /\ obs.prof[a].cs = G.pr[a].cs
       ELSE ~obs.prof[a].ok
  /\ \A a \in DOMAIN obs.entries : obs.entries[a] = CountriesOf(G, a)

\* cd[a] = get_country_data(a, i) for i = 0 .. one past the last entry
EnumIrs(G, obs) ==
  \A a \in DOMAIN obs.cd :
    LET cs == CountriesOf(G, a)  p == obs.cd[a] IN
    /\ Len(p) = Len(cs) + 1
    /\ \A j \in 1..Len(cs) : p[j].ok /\ p[j].c = cs[j]
    /\ ~p[Len(cs) + 1].ok

RecoveryLinks(G, obs) ==
  \A a \in DOMAIN obs.rec : obs.rec[a] = (IF a \in DOMAIN G.rec THEN G.rec[a] ELSE None)

(* modules: compliance modules per hook ---------------------------------------------------*)
ModulesOf(G, h) == {p[2] : p \in {q \in G.M : q[1] = h}}

QueryModules(G, obs) ==
  /\ \A h \in DOMAIN obs.mods : ToSet(obs.mods[h]) = ModulesOf(G, h)
  /\ \A h \in DOMAIN obs.reg : ToSet(obs.reg[h]) = ModulesOf(G, h)

EnumModules(G, obs) == \A h \in DOMAIN obs.mods : NoDup(obs.mods[h])

(* claims: identity claims by id, claim ids by topic -----------------------------------------*)
\* the name under which the harness logs the id of (issuer, topic): it names a 32-byte id after the
\* first pair of the universe that `generate_claim_id` maps to it (any other id is logged in hex)
Cid(t, i) == t \o "/" \o i
LiveOf(G, t) == {k \in DOMAIN G.C : k[1] = t}

\* probes: claim <<[t, i, id, ok, topic, issuer, data, scheme, uri, sig]>>  id = generate_claim_id(i, t),
\*         the rest = get_claim(id);  byt[t] = get_claim_ids_by_topic(t)
QueryClaims(G, obs) ==
  /\ \A p \in ToSet(obs.claim) :
       IF <<p.t, p.i>> \in DOMAIN G.C
       THEN LET c == G.C[<<p.t, p.i>>] IN
            /\ p.ok /\ p.topic = p.t /\ p.issuer = p.i
            /\ p.data = c.data /\ p.scheme = c.scheme /\ p.uri = c.uri /\ p.sig = c.sig
       ELSE ~p.ok
  /\ \A t \in DOMAIN obs.byt : ToSet(obs.byt[t]) = {Cid(k[1], k[2]) : k \in LiveOf(G, t)}

\* every live claim is listed once under its topic
EnumClaims(G, obs) ==
  \A t \in DOMAIN obs.byt : NoDup(obs.byt[t]) /\ Len(obs.byt[t]) = Cardinality(LiveOf(G, t))

\* the claim id is a function of (issuer, topic) alone, injective over the universe and the same at
\* every step; add_claim returns it, for a new claim and for an overwrite alike
IdsClaims(g, ev) ==
  /\ \A p \in ToSet(ev.obs.claim) : p.id = Cid(p.t, p.i)
  /\ (ev.op.op = "add_claim" /\ ev.res = "ok") => ev.ret = Cid(ev.op.a, ev.op.b)

QueryOk(G, obs) ==
  CASE G.fl = "keys"    -> QueryKeys(G, obs)
    [] G.fl = "cti"     -> QueryCti(G, obs)
    [] G.fl = "binder"  -> QueryBinder(G, obs)
    [] G.fl = "docs"    -> QueryDocs(G, obs)
    [] G.fl = "irs"     -> QueryIrs(G, obs)
    [] G.fl = "modules" -> QueryModules(G, obs)
    [] G.fl = "claims"  -> QueryClaims(G, obs)
    [] OTHER            -> TRUE

EnumOk(G, obs) ==
  CASE G.fl = "keys"    -> EnumKeys(G, obs)
    [] G.fl = "cti"     -> EnumCti(G, obs)
    [] G.fl = "binder"  -> EnumBinder(G, obs)
    [] G.fl = "docs"    -> EnumDocs(G, obs)
    [] G.fl = "irs"     -> EnumIrs(G, obs)
    [] G.fl = "modules" -> EnumModules(G, obs)
    [] G.fl = "claims"  -> EnumClaims(G, obs)
    [] OTHER            -> TRUE

(* refusals and capacity limits ---------------------------------------------------------------*)
Card(S) == Cardinality(S)

\* additions of duplicates and removals / updates of absent items: must be refused
Redundant(g, o) ==
  CASE o.op = "allow"           -> <<o.a, o.b, o.c>> \in g.S
    [] o.op = "remove"          -> <<o.a, o.b, o.c>> \notin g.S
    [] o.op = "add_topic"       -> o.a \in g.T
    [] o.op = "remove_topic"    -> o.a \notin g.T
    [] o.op = "add_issuer"      -> o.a \in g.I
    [] o.op \in {"remove_issuer", "update_issuer"} -> o.a \notin g.I
    [] o.op = "bind"            -> o.a \in g.S
    [] o.op = "unbind"          -> o.a \notin g.S
    [] o.op = "bind_batch"      -> ~NoDup(o.xs) \/ ToSet(o.xs) \cap g.S # {}
    [] o.op = "remove_doc"      -> o.a \notin DOMAIN g.D
    [] o.op = "add_identity"    -> o.a \in DOMAIN g.id
    [] o.op \in {"modify_identity", "remove_identity"} -> o.a \notin DOMAIN g.id
    [] o.op = "recover"         -> o.a \notin DOMAIN g.id \/ o.b \in DOMAIN g.id
    [] o.op = "add_countries"   -> o.a \notin DOMAIN g.pr
    [] o.op \in {"modify_country", "delete_country"} -> o.n >= Len(CountriesOf(g, o.a))
    [] o.op = "add_module"      -> <<o.a, o.b>> \in g.M
    [] o.op = "remove_module"   -> <<o.a, o.b>> \notin g.M
    [] o.op = "remove_claim"    -> <<o.a, o.b>> \notin DOMAIN g.C
    [] o.op = "add_invalid"     -> TRUE
    [] OTHER                    -> FALSE

\* a new element one past a documented limit: must be refused
OverCap(g, o) ==
  CASE o.op = "allow"         -> /\ <<o.a, o.b, o.c>> \notin g.S
                                 /\ \/ Card(PairsOfKey(g.S, o.a)) >= g.lim.rpk
                                    \/ o.a \notin KeysOfTopic(g.S, o.b) /\ Card(KeysOfTopic(g.S, o.b)) >= g.lim.kpt
    [] o.op = "add_topic"     -> o.a \notin g.T /\ Card(g.T) >= g.lim.topics
    [] o.op = "add_issuer"    -> o.a \notin g.I /\ Card(g.I) >= g.lim.issuers
    [] o.op = "bind"          -> o.a \notin g.S /\ Card(g.S) >= g.lim.max
    [] o.op = "bind_batch"    -> Len(o.xs) > g.lim.batch \/ Card(g.S) + Len(o.xs) > g.lim.max
    [] o.op = "set_doc"       -> o.a \notin DOMAIN g.D /\ NDocs(g) >= g.lim.max
    [] o.op = "add_identity"  -> Len(o.xs) > g.lim.countries
    [] o.op = "add_countries" -> o.a \in DOMAIN g.pr /\ Len(g.pr[o.a].cs) + Len(o.xs) > g.lim.countries
    [] o.op = "add_module"    -> <<o.a, o.b>> \notin g.M /\ Card(ModulesOf(g, o.a)) >= g.lim.modules
    [] OTHER                  -> FALSE

\* a new element up to and including the limit, all documented preconditions met: must be accepted
Within(g, o) ==
  CASE o.op = "allow"         -> /\ <<o.a, o.b, o.c>> \notin g.S
                                 /\ Card(PairsOfKey(g.S, o.a)) < g.lim.rpk
                                 /\ o.a \in KeysOfTopic(g.S, o.b) \/ Card(KeysOfTopic(g.S, o.b)) < g.lim.kpt
    [] o.op = "add_topic"     -> o.a \notin g.T /\ Card(g.T) < g.lim.topics
    [] o.op = "add_issuer"    -> /\ o.a \notin g.I /\ Card(g.I) < g.lim.issuers
                                 /\ o.xs # <<>> /\ NoDup(o.xs) /\ ToSet(o.xs) \subseteq g.T
    \* (moving a registered issuer onto existing topics adds nothing to the registry: no limit can be in the way,
    \* however long a topic's issuer list gets - it is bounded by the number of issuers)
    \* (judged only when the edit puts the issuer onto at least one more topic - the case a limit could be about; an
    \* implementation that refuses an edit which changes nothing is not flagged)
    [] o.op = "update_issuer" -> /\ o.a \in g.I /\ o.xs # <<>> /\ NoDup(o.xs) /\ ToSet(o.xs) \subseteq g.T
                                 /\ ToSet(o.xs) \ TopicsOf(g, o.a) # {}
    [] o.op = "bind"          -> o.a \notin g.S /\ Card(g.S) < g.lim.max
    [] o.op = "bind_batch"    -> /\ o.xs # <<>> /\ NoDup(o.xs) /\ ToSet(o.xs) \cap g.S = {}
                                 /\ Len(o.xs) <= g.lim.batch /\ Card(g.S) + Len(o.xs) <= g.lim.max
    [] o.op = "set_doc"       -> o.a \in DOMAIN g.D \/ NDocs(g) < g.lim.max
    [] o.op = "add_identity"  -> /\ o.a \notin DOMAIN g.id /\ o.a \notin DOMAIN g.rec
                                 /\ o.xs # <<>> /\ Len(o.xs) <= g.lim.countries
    [] o.op = "add_countries" -> /\ o.a \in DOMAIN g.pr /\ o.xs # <<>>
                                 /\ Len(g.pr[o.a].cs) + Len(o.xs) <= g.lim.countries
    [] o.op = "add_module"    -> <<o.a, o.b>> \notin g.M /\ Card(ModulesOf(g, o.a)) < g.lim.modules
    [] OTHER                  -> FALSE

\* coverage counters of the trace checker: the limits that refuse the call (one past) /
\* that the accepted call fills exactly
OverSet(g, o) ==
  IF Redundant(g, o) THEN {} ELSE
  CASE o.op = "allow"         -> {x \in {"rpk"} : Card(PairsOfKey(g.S, o.a)) >= g.lim.rpk}
                                 \cup {x \in {"kpt"} : o.a \notin KeysOfTopic(g.S, o.b)
                                                          /\ Card(KeysOfTopic(g.S, o.b)) >= g.lim.kpt}
    [] o.op = "add_topic"     -> {x \in {"topics"} : Card(g.T) >= g.lim.topics}
    [] o.op = "add_issuer"    -> {x \in {"issuers"} : Card(g.I) >= g.lim.issuers}
    [] o.op = "bind"          -> {x \in {"tokens"} : Card(g.S) >= g.lim.max}
    [] o.op = "bind_batch"    -> {x \in {"batch"} : Len(o.xs) > g.lim.batch}
                                 \cup {x \in {"tokens"} : Card(g.S) + Len(o.xs) > g.lim.max}
    [] o.op = "set_doc"       -> {x \in {"docs"} : NDocs(g) >= g.lim.max}
    [] o.op = "add_identity"  -> {x \in {"countries"} : Len(o.xs) > g.lim.countries}
    [] o.op = "add_countries" -> {x \in {"countries"} : Len(g.pr[o.a].cs) + Len(o.xs) > g.lim.countries}
    [] o.op = "add_module"    -> {x \in {"modules"} : Card(ModulesOf(g, o.a)) >= g.lim.modules}
    [] OTHER                  -> {}

AtSet(g, o) ==
  IF ~Within(g, o) THEN {} ELSE
  CASE o.op = "allow"         -> {x \in {"rpk"} : Card(PairsOfKey(g.S, o.a)) = g.lim.rpk - 1}
                                 \cup {x \in {"kpt"} : o.a \notin KeysOfTopic(g.S, o.b)
                                                          /\ Card(KeysOfTopic(g.S, o.b)) = g.lim.kpt - 1}
    [] o.op = "add_topic"     -> {x \in {"topics"} : Card(g.T) = g.lim.topics - 1}
    [] o.op = "add_issuer"    -> {x \in {"issuers"} : Card(g.I) = g.lim.issuers - 1}
    [] o.op = "bind"          -> {x \in {"tokens"} : Card(g.S) = g.lim.max - 1}
    [] o.op = "bind_batch"    -> {x \in {"batch"} : Len(o.xs) = g.lim.batch}
                                 \cup {x \in {"tokens"} : Card(g.S) + Len(o.xs) = g.lim.max}
    [] o.op = "set_doc"       -> {x \in {"docs"} : o.a \notin DOMAIN g.D /\ NDocs(g) = g.lim.max - 1}
    [] o.op = "add_identity"  -> {x \in {"countries"} : Len(o.xs) = g.lim.countries}
    [] o.op = "add_countries" -> {x \in {"countries"} : Len(g.pr[o.a].cs) + Len(o.xs) = g.lim.countries}
    [] o.op = "add_module"    -> {x \in {"modules"} : Card(ModulesOf(g, o.a)) = g.lim.modules - 1}
    [] OTHER                  -> {}
LimitNames == {"rpk", "kpt", "topics", "issuers", "tokens", "batch", "docs", "countries", "modules"}

(* monitors -----------------------------------------------------------------------------------*)
Flavours == {"keys", "cti", "binder", "docs", "irs", "modules", "claims"}
Kinds == {"query", "refuse", "capacity", "enum"}
MonName(fl, k) == "C20_" \o fl \o "_" \o k

\* (the claims registry has no capacity limit; its extra monitor is "C20_claims_ids")
KindsOf(fl) == IF fl = "irs" THEN Kinds \cup {"recovery"}
               ELSE IF fl = "claims" THEN {"query", "refuse", "enum", "ids"}
               ELSE Kinds

Monitors == UNION {{MonName(fl, k) : k \in KindsOf(fl)} : fl \in Flavours}

PropOf(m) == "C20"

Mine(g, ev) == ev.op.op \in OpsOf(g.fl)
BothFull(g, ev) == ev.obs.full /\ g.last.full

\* monitor C20_<g.fl>_<k>;  AnteK is also what the trace checker counts as a non-trivial evaluation
AnteK(k, g, ev) ==
  LET o == ev.op IN
  /\ Mine(g, ev)
  /\ CASE k = "query"    -> TRUE
       [] k = "enum"     -> TRUE
       [] k = "refuse"   -> Redundant(g, o) \/ ev.res # "ok"
       [] k = "capacity" -> OverCap(g, o) \/ Within(g, o)
       [] k = "recovery" -> DOMAIN g.rec # {} \/ o.op = "recover"
       [] k = "ids"      -> TRUE

ConsK(k, g, ev) ==
  LET o == ev.op  ok == ev.res = "ok"  G == GAfter(g, ev) IN
  \* every getter answers as the plain set / map / relation implied by the calls so far
  CASE k = "query"    -> QueryOk(G, ev.obs)
  \* lists and index-based access enumerate every element exactly once, gap-free, one past refused
    [] k = "enum"     -> EnumOk(G, ev.obs)
  \* duplicates / absentees are refused, and a refused call leaves every getter as it was
    [] k = "refuse"   -> ~ok /\ (BothFull(g, ev) => ev.obs = g.last)
  \* limits are enforced exactly: accepted up to the limit, refused one past it
    [] k = "capacity" -> (OverCap(g, o) => ~ok) /\ (Within(g, o) => ok)
  \* a recovered account is never registered again; the links are permanent
    [] k = "recovery" -> /\ RecoveryLinks(G, ev.obs)
                         /\ (o.op = "add_identity" /\ o.a \in DOMAIN g.rec) => ~ok
                         /\ (o.op = "recover" /\ o.b \in DOMAIN g.rec) => ~ok
                         /\ \A a \in DOMAIN G.rec : a \notin DOMAIN G.id
                         /\ \A a \in DOMAIN g.rec : a \in DOMAIN G.rec /\ G.rec[a] = g.rec[a]
  \* claim ids: a fixed injective function of (issuer, topic), returned by add_claim
    [] k = "ids"      -> IdsClaims(g, ev)

\* by monitor name (only the monitors of the run's flavour are ever non-trivial)
Ante(m, g, ev) == \E k \in KindsOf(g.fl) : m = MonName(g.fl, k) /\ AnteK(k, g, ev)
Cons(m, g, ev) == \A k \in KindsOf(g.fl) : m = MonName(g.fl, k) => ConsK(k, g, ev)

Holds(m, g, ev) == Ante(m, g, ev) => Cons(m, g, ev)

\* classification used to match entries of known_findings.json
Key(m, g, ev) ==
  IF /\ m = "C20_keys_capacity" /\ ev.op.op = "allow" /\ ev.res # "ok" /\ Within(g, ev.op)
     /\ Card(PairsOfKey(g.S, ev.op.a)) = g.lim.rpk - 1
  THEN "last_registry_of_key_refused"
  ELSE "other"

Failing(g, ev) == {MonName(g.fl, k) : k \in {kk \in KindsOf(g.fl) : AnteK(kk, g, ev) /\ ~ConsK(kk, g, ev)}}
=============================================================================
