------------------------------- MODULE Votes -------------------------------
(***************************************************************************)
(* Property-level specification of vote tracking with delegation and       *)
(* historical checkpoints (packages/governance/src/votes) as wired into    *)
(* votes-enabled fungible and non-fungible tokens.                         *)
(*                                                                         *)
(* Single source of truth for property C13, and for the part of C01 that   *)
(* concerns the votes flavour of the fungible token (monitors C01_votes_..).*)
(* The same operators judge every transition of MC_Votes (TLC, exhaustive) *)
(* and every step recorded from the real contracts (Trace_Votes).          *)
(*                                                                         *)
(* An event `ev` is a record                                               *)
(*   [op  |-> [op, from, to, by, amt, auth, dt],                           *)
(*    now |-> ledger sequence number at the call,                          *)
(*    res |-> "ok" | "fail",                                               *)
(*    obs |-> public getters after the call, for the whole universe:       *)
(*      bal[a]    token balance(a)            supply  token total_supply() *)
(*      units[a]  get_voting_units(a)         total   get_total_supply()   *)
(*      deleg[a]  get_delegate(a) or "none"   votes[a] get_votes(a)        *)
(*      past      <<[l, v, t]>> : answers of get_votes_at_checkpoint(a, l) *)
(*                (v[a]) and get_total_supply_at_checkpoint(l) (t) for the *)
(*                queried ledgers l < now; -1 = the query was refused      *)
(*      fut       <<[l, v, t]>> : "ok"/"fail" for queries at ledgers >= now*)
(*                (v = "fail" iff refused for every account)               *)
(*      futmax    [v, t] : the same for ledger u32::MAX ]                  *)
(* op.op \in {"mint","burn","transfer","delegate","approve","xfer_from",   *)
(*            "burn_from"};                                                *)
(*   mint(to, amt)  burn(from, amt)  transfer(from, to, amt)               *)
(*   delegate(from = the delegating account, to = the delegatee)           *)
(*   approve(from = owner, to = spender, amt)                              *)
(*   xfer_from(by = spender, from, to, amt)   burn_from(by, from, amt)     *)
(* For the NFT flavour amt = 1 (one token = one voting unit).              *)
(***************************************************************************)
EXTENDS Integers, Sequences, FiniteSets

NoOne == "none"

RECURSIVE SumOver(_, _)
SumOver(f, S) == IF S = {} THEN 0
                 ELSE LET x == CHOOSE y \in S : TRUE IN f[x] + SumOver(f, S \ {x})

(* ghost state ------------------------------------------------------------*)
\* fl    : flavour ("fungible", "fungible_burn", "nft")
\* accts : the universe of accounts of this run
\* bal   : token balances as the calls prescribe them (amounts named by successful calls)
\* deleg : whom each account currently delegates to (NoOne: nobody)
\* tl    : the history: one entry [l, p, t] per ledger l in which the values changed;
\*         p[d] / t = voting power of d / vote total at the END of ledger l
\* last  : the answers about past ledgers given after the previous call
GInit(fl, accts) == [fl |-> fl, accts |-> accts,
                     bal |-> [a \in accts |-> 0], deleg |-> [a \in accts |-> NoOne],
                     tl |-> <<>>, last |-> <<>>]

\* what the property says the voting power / the total is, given the voting units `u`
\* and the delegations `dl`
PowerOf(u, dl, S, d) == SumOver([a \in S |-> IF dl[a] = d THEN u[a] ELSE 0], S)
TotalOf(u, S) == SumOver(u, S)

Moved(g, o) ==
  CASE o.op = "mint"                    -> [g.bal EXCEPT ![o.to] = @ + o.amt]
    [] o.op \in {"burn", "burn_from"}   -> [g.bal EXCEPT ![o.from] = @ - o.amt]
    [] o.op \in {"transfer", "xfer_from"} ->
         LET b1 == [g.bal EXCEPT ![o.from] = @ - o.amt] IN [b1 EXCEPT ![o.to] = @ + o.amt]
    [] OTHER                            -> g.bal

Redelegated(g, o) == IF o.op = "delegate" THEN [g.deleg EXCEPT ![o.from] = o.to] ELSE g.deleg

\* the entry of the current ledger is replaced (the value at the END of a ledger is what
\* counts); entries of earlier ledgers are never touched
SetTl(tl, now, p, t) ==
  LET n == Len(tl) IN
  IF n > 0 /\ tl[n].l = now THEN [tl EXCEPT ![n] = [l |-> now, p |-> p, t |-> t]]
  ELSE IF n > 0 /\ tl[n].l > now THEN tl               \* time never runs backwards
  ELSE IF n > 0 /\ tl[n].p = p /\ tl[n].t = t THEN tl  \* nothing changed
  ELSE Append(tl, [l |-> now, p |-> p, t |-> t])

\* index of the last history entry at or before ledger l (0: none; ledgers strictly increase)
HistIdx(tl, l) == Cardinality({i \in DOMAIN tl : tl[i].l <= l})
HistP(tl, d, l) == LET i == HistIdx(tl, l) IN IF i = 0 THEN 0 ELSE tl[i].p[d]
HistT(tl, l)    == LET i == HistIdx(tl, l) IN IF i = 0 THEN 0 ELSE tl[i].t

\* The voting units themselves are left open here (C13_units ties them to the token
\* balance, C01_votes_.. tie the balance to the calls): the history records the power that
\* the *observed* units and the ghost delegations add up to.
GNext(g, ev) ==
  LET o  == ev.op
      ok == ev.res = "ok"
      dl == IF ok THEN Redelegated(g, o) ELSE g.deleg
      S  == g.accts
  IN [g EXCEPT !.bal   = IF ok THEN Moved(g, o) ELSE g.bal,
               !.deleg = dl,
               !.tl    = SetTl(g.tl, ev.now, [d \in S |-> PowerOf(ev.obs.units, dl, S, d)],
                               TotalOf(ev.obs.units, S)),
               !.last  = ev.obs.past]

(* monitors ---------------------------------------------------------------*)
Monitors == {"C13_power", "C13_total", "C13_units", "C13_delegate", "C13_past",
             "C13_immutable_past", "C13_future",
             "C01_votes_sum", "C01_votes_delta", "C01_votes_fail"}

PropOf(m) == IF m \in {"C01_votes_sum", "C01_votes_delta", "C01_votes_fail"} THEN "C01" ELSE "C13"

TokenOps == {"mint", "burn", "transfer", "xfer_from", "burn_from"}

Ante(m, g, ev) ==
  LET o == ev.op  ok == ev.res = "ok" IN
  CASE m \in {"C13_power", "C13_total", "C13_units", "C13_delegate"} -> TRUE
    [] m = "C13_past"           -> \E i \in DOMAIN ev.obs.past : ev.obs.past[i].l < ev.now
    [] m = "C13_immutable_past" -> \E i \in DOMAIN g.last : \E j \in DOMAIN ev.obs.past :
                                      g.last[i].l = ev.obs.past[j].l
    [] m = "C13_future"         -> TRUE
    [] m = "C01_votes_sum"      -> g.fl # "nft"
    [] m = "C01_votes_delta"    -> g.fl # "nft" /\ ok
    [] m = "C01_votes_fail"     -> g.fl # "nft" /\ ~ok

ConsX(m, g, g2, ev) ==
  LET o == ev.op  ok == ev.res = "ok"  obs == ev.obs  S == g.accts IN
  CASE m = "C13_power"    -> \A d \in S : obs.votes[d] = PowerOf(obs.units, g2.deleg, S, d)
    [] m = "C13_total"    -> obs.total = TotalOf(obs.units, S)
    [] m = "C13_units"    -> \A a \in S : obs.units[a] = obs.bal[a]
    \* the delegate is the one named by the last successful delegate(a, ..), which a authorised
    [] m = "C13_delegate" -> /\ \A a \in S : obs.deleg[a] = g2.deleg[a]
                             /\ (o.op = "delegate" /\ ok) => o.from \in o.auth
    \* a query about a past ledger returns the value that held at the end of that ledger
    [] m = "C13_past"     -> \A i \in DOMAIN obs.past :
                               LET q == obs.past[i] IN
                               q.l < ev.now =>
                                 \A k \in {HistIdx(g.tl, q.l)} :       \* (bound once)
                                   /\ \A d \in S : q.v[d] = IF k = 0 THEN 0 ELSE g.tl[k].p[d]
                                   /\ q.t = IF k = 0 THEN 0 ELSE g.tl[k].t
    \* no later operation changes an answer about the past
    [] m = "C13_immutable_past" -> \A i \in DOMAIN g.last : \A j \in DOMAIN obs.past :
                                     g.last[i].l = obs.past[j].l =>
                                       g.last[i].v = obs.past[j].v /\ g.last[i].t = obs.past[j].t
    \* queries about the current or a future ledger are refused
    [] m = "C13_future"   -> /\ \A i \in DOMAIN obs.fut :
                                  obs.fut[i].l >= ev.now => obs.fut[i].v = "fail" /\ obs.fut[i].t = "fail"
                             /\ obs.futmax.v = "fail" /\ obs.futmax.t = "fail"
    [] m = "C01_votes_sum"   -> /\ obs.supply = SumOver(obs.bal, S)
                                /\ \A a \in S : obs.bal[a] >= 0
    \* exactly the named balances move by exactly the amount (also for from = to); a transfer
    \* keeps the supply, a mint / burn changes it by exactly the amount
    [] m = "C01_votes_delta" -> /\ \A a \in S : obs.bal[a] = g2.bal[a]
                                /\ obs.supply = SumOver(g.bal, S)
                                     + (IF o.op = "mint" THEN o.amt
                                        ELSE IF o.op \in {"burn", "burn_from"} THEN 0 - o.amt ELSE 0)
    \* a failed call leaves balances, supply and votes as they were
    [] m = "C01_votes_fail"  -> /\ \A a \in S : obs.bal[a] = g.bal[a]
                                /\ obs.supply = SumOver(g.bal, S)
                                /\ Len(g.tl) > 0 =>
                                     /\ \A d \in S : obs.votes[d] = g.tl[Len(g.tl)].p[d]
                                     /\ obs.total = g.tl[Len(g.tl)].t
                                /\ Len(g.tl) = 0 => (obs.total = 0 /\ \A d \in S : obs.votes[d] = 0)

Cons(m, g, ev) == ConsX(m, g, GNext(g, ev), ev)

Holds(m, g, ev) == Ante(m, g, ev) => Cons(m, g, ev)

Key(m, g, ev) == "other"

\* g2 = GNext(g, ev), handed in as a value so that it is computed once
FailingX(g, g2, ev) == {m \in Monitors : Ante(m, g, ev) /\ ~ConsX(m, g, g2, ev)}

Failing(g, ev) == UNION {FailingX(g, g2, ev) : g2 \in {GNext(g, ev)}}
=============================================================================
