-------------------------- MODULE MC_MerkleVoting --------------------------
(* Implementation-shaped model of examples/merkle-voting: `vote` = MerkleDistributor::verify_and_set_claimed    *)
(* (claimed check, proof check, claimed flag) followed by the checked i128 addition to one of the two cached     *)
(* tallies; the host rolls the whole call back when the addition overflows.  Hashing is abstracted by the usual  *)
(* assumption that SHA-256 is collision free: a proof verifies iff it is the tree's proof of exactly the          *)
(* submitted leaf.                                                                                                *)
EXTENDS MerkleVoting, TLC, Json

CONSTANTS Depth, Emit, Regime, AUTHREQ, BUG
\* Regime: "s" small amounts (no overflow reachable) | "o" amounts in units of 2^124, 7 = i128::MAX
\* AUTHREQ: FALSE = the code as it is (vote never asks for the voter's authorization) | TRUE = intended design
\* BUG: "" | "both_sides" | "no_claim" | "skip_proof"   (seeded model bugs, vacuity guards)

VARIABLES claimed, totPro, totCon, g, viol, hist
vars == <<claimed, totPro, totCon, g, viol, hist>>
View == <<claimed, totPro, totCon, g, viol, Len(hist)>>

Voters == <<"a", "b", "c", "d">>
Pows == IF Regime = "o" THEN <<4, 3, 2, 1>> ELSE <<5, 3, 0, 2>>
Max == IF Regime = "o" THEN 7 ELSE 1000000000
Ks == 0..3
Ids == 0..7
Leaves == {[idx |-> k, acct |-> Voters[k + 1], pow |-> Pows[k + 1]] : k \in Ks}

\* the VoteData the caller submits, derived from tree leaf k
Data(k, mut) ==
  CASE mut = "none"    -> [idx |-> k,     acct |-> Voters[k + 1],             pow |-> Pows[k + 1]]
    [] mut = "power"   -> [idx |-> k,     acct |-> Voters[k + 1],             pow |-> Pows[k + 1] + 1]
    [] mut = "account" -> [idx |-> k,     acct |-> Voters[((k + 1) % 4) + 1], pow |-> Pows[k + 1]]
    [] mut = "index"   -> [idx |-> k + 4, acct |-> Voters[k + 1],             pow |-> Pows[k + 1]]

Op(k, mut, proof, approve, auth) ==
  LET d == Data(k, mut) IN
  [op |-> "vote", k |-> k, mut |-> mut, idx |-> d.idx, acct |-> d.acct, pow |-> d.pow,
   proof |-> proof, approve |-> approve, auth |-> auth]
OpsOf(k) == {Op(k, mut, proof, approve, auth) :
               mut \in {"none", "power", "account", "index"}, proof \in {"good", "other", "empty"},
               approve \in BOOLEAN, auth \in {{}, {Voters[k + 1]}, {"x"}}}
            \cup {Op(k, "account", "good", TRUE, {Voters[((k + 1) % 4) + 1]})}
Ops == UNION {OpsOf(k) : k \in Ks}

Verifies(o) == o.mut = "none" /\ o.proof = "good"
FitsI(x) == x <= Max /\ x >= -Max - 1

\* the code's checks, in the code's order
ImplOk(o) ==
  /\ (AUTHREQ => o.acct \in o.auth)                        \* intended: vote_data.account.require_auth()
  /\ o.idx \notin claimed                                  \* IndexAlreadyClaimed
  /\ (BUG = "skip_proof" \/ Verifies(o))                   \* InvalidProof
  /\ FitsI((IF o.approve THEN totPro ELSE totCon) + o.pow) \* checked addition (overflow traps, host rolls back)
ImplEffect(o) ==
  /\ claimed' = (IF BUG = "no_claim" THEN claimed ELSE claimed \cup {o.idx})
  /\ totPro' = (IF o.approve \/ BUG = "both_sides" THEN totPro + o.pow ELSE totPro)
  /\ totCon' = (IF ~o.approve \/ BUG = "both_sides" THEN totCon + o.pow ELSE totCon)

ObsOf(cl, p, c) == [pro |-> p, con |-> c, exact |-> TRUE, ids |-> Ids, voted |-> cl \cap Ids]

Init == /\ claimed = {} /\ totPro = 0 /\ totCon = 0
        /\ g = GInit(Leaves, Max)
        /\ viol = {} /\ hist = <<>>
Step(o) ==
  LET ok == ImplOk(o)
      ev == [op |-> o, res |-> IF ok THEN "ok" ELSE "fail", pvalid |-> Verifies(o),
             obs |-> ObsOf(claimed', totPro', totCon')]
  IN /\ IF ok THEN ImplEffect(o) ELSE UNCHANGED <<claimed, totPro, totCon>>
     /\ g' = GNext(g, ev)
     /\ viol' = viol \cup {<<m, Key(m, g, ev)>> : m \in Failing(g, ev)}
     /\ hist' = Append(hist, o @@ [exp |-> ev.res])
Next == Len(hist) < Depth /\ \E o \in Ops : Step(o)
Bound == TRUE
EmitReplay == Emit => PrintT(<<"REPLAY", ToJson(hist')>>)
NoViolation == viol = {}
KnownOnly == viol \subseteq {<<"X04_voter_authorized", "vote_without_voter_authorization">>}
Refines == g.counted = claimed /\ g.pro = totPro /\ g.con = totCon
=============================================================================
