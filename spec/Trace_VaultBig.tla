--------------------------- MODULE Trace_VaultBig ---------------------------
(* Trace validation for VaultBig.tla: the previous observation is the ghost state. *)
EXTENDS VaultBig, TLC, Json, IOUtils
Rec == ndJsonDeserialize(IOEnv.TRACE)
VARIABLES l, g, dead, cnt
vars == <<l, g, dead, cnt>>
Init == l = 1 /\ g = [A |-> 0] /\ dead = FALSE /\ cnt = [m \in Monitors |-> 0]
Report(ev, m) == PrintT(<<"VIOL", ToJson([run |-> ev.run, i |-> ev.i, line |-> l, mon |-> m,
                                          prop |-> PropOf(m), key |-> "other"])>>)
Next ==
  /\ l <= Len(Rec)
  /\ l' = l + 1
  /\ LET ev == Rec[l] IN
     IF ev.op.op = "reset" THEN g' = ev.obs /\ dead' = FALSE /\ UNCHANGED cnt
     ELSE IF dead THEN UNCHANGED <<g, dead, cnt>>
     ELSE LET j == Judge(g, ev) IN
          /\ \A m \in j.fail : Report(ev, m)
          /\ dead' = (j.fail # {})
          /\ g' = ev.obs
          /\ cnt' = [m \in Monitors |-> cnt[m] + IF m \in j.ante THEN 1 ELSE 0]
  /\ (l = Len(Rec) => PrintT(<<"DONE", l, ToJson(cnt')>>))
Spec == Init /\ [][Next]_vars
=============================================================================
