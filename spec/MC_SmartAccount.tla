-------------------------- MODULE MC_SmartAccount --------------------------
(***************************************************************************)
(* Implementation-shaped model of packages/accounts smart_account/storage  *)
(* (rule storage: Meta/Signers/Policies per id, Ids per context type,      *)
(* NextId, Count, Fingerprint set) and of do_check_auth's pipeline         *)
(*   authenticate -> get_valid_context_rules -> get_validated_context ->   *)
(*   enforce                                                                *)
(* in the code's order, checked exhaustively by TLC against the monitors   *)
(* of SmartAccount.tla and used as generator of the behaviours replayed on *)
(* the real multisig account.                                               *)
(*                                                                         *)
(* A behaviour is: cfg(p1), cfg(p2), init (constructor), a history of      *)
(* management calls, and one final check (replayed either by entering      *)
(* __check_auth directly or, for chains of call contexts, end-to-end).     *)
(***************************************************************************)
EXTENDS SmartAccount, Json

\* TLC configuration files cannot express tuples, hence the small encodings below.
CONSTANTS Signers,      \* signers that rules may name
          Unknown,      \* signers no rule names (supplied only)
          Pols,         \* policy contracts
          CTs,          \* context types, "D" included
          Batches,      \* context batches offered to a check: a (single context) or 10*a + b, over CtxNames
          PolCfgs,      \* joint behaviours of the two policies: c1 + 1000 * c2 with c = 2*k + (1 if enforce refuses)
          Supplied,     \* the signer sets offered to a check (subsets of Signers \cup Unknown)
          InitRules,    \* choices for the constructor: sets of signer and policy names
          RSets,        \* the same for add_rule; "dup" repeats the first signer in the list
          VUoffs,       \* valid_until offered: 99 = None, otherwise ledger-of-the-call + offset - 10
          DTs,          \* ledgers advanced before a management call
          CheckDTs,     \* ledgers advanced before the check
          BadMode,      \* "any": every single supplied signer may carry the invalid signature; "one": one fixed choice
          GenRules,     \* generator bound: add_rule is offered while fewer rules exist
          Depth, Now0,
          BUG,          \* "none" | "default_first" | "oldest_first" | "expiry_late" | "all_supplied" | "skip_auth"
          Emit,         \* print behaviours (those ending in a check) for replay on the real contracts ...
          EmitMod       \* ... one in EmitMod of them, chosen by an arithmetic digest of the behaviour

SigOrder == <<"s1", "s2", "s3", "d", "u">>
PolOrder == <<"p1", "p2", "p3">>
CtxNames == <<"c1", "c2", "c3", "w1", "v1">>
PolSeq == SelectSeq(PolOrder, LAMBDA p : p \in Pols)          \* policies in the order of their addresses (Map key order)
BatchOf(n) == IF n < 10 THEN <<CtxNames[n]>> ELSE <<CtxNames[n \div 10], CtxNames[n % 10]>>
SignersOf(R) == LET sq == SelectSeq(SigOrder, LAMBDA x : x \in R) IN
                IF "dup" \in R /\ sq # <<>> THEN Append(sq, sq[1]) ELSE sq
PolsOf(R) == R \cap Pols

VARIABLES st,           \* implementation-shaped storage, see StInit
          now, g, viol, hist

vars == <<st, now, g, viol, hist>>
LastIsCheck == hist # <<>> /\ hist[Len(hist)].op = "check"
View == <<st, now, g, viol, Len(hist), LastIsCheck>>

MinOf(S) == CHOOSE x \in S : \A y \in S : x <= y
Rev(s) == [i \in 1 .. Len(s) |-> s[Len(s) + 1 - i]]
Remove(s, x) == SelectSeq(s, LAMBDA y : y # x)
OrdPols(P) == SelectSeq(PolSeq, LAMBDA p : p \in P)

StInit == [acct   |-> FALSE,                                  \* account deployed
           meta   |-> <<>>,                                   \* Meta(id)     : id |-> [ct, vu, name]
           sgn    |-> <<>>,                                   \* Signers(id)  : id |-> Seq
           pls    |-> <<>>,                                   \* Policies(id) : id |-> Seq
           ids    |-> [t \in CTs |-> <<>>],                   \* Ids(type)    : Seq of ids
           nextId |-> 0, count |-> 0,
           fps    |-> {},                                     \* Fingerprint(hash(type, sorted signers, sorted policies))
           pcfg   |-> [p \in Pols |-> [k |-> 0, rf |-> FALSE]]]   \* collaborators

Fp(ct, S, P) == <<ct, S, P>>
Exists(id) == id \in DOMAIN st.meta

(* management entry points, checks in the code's order ------------------------*)
AddOk(ct, vu, sg, P, t) ==
  /\ st.count < LimRules
  /\ ~HasDup(sg)
  /\ vu = NoVu \/ vu >= t
  /\ Len(sg) <= LimSigners /\ Cardinality(P) <= LimPolicies /\ (sg # <<>> \/ P # {})
  /\ Fp(ct, ToSet(sg), P) \notin st.fps

AddEff(ct, vu, name, sg, P) ==
  LET id == st.nextId IN
  [st EXCEPT !.meta = (id :> [ct |-> ct, vu |-> vu, name |-> name]) @@ @,
             !.sgn = (id :> sg) @@ @, !.pls = (id :> OrdPols(P)) @@ @,
             !.ids[ct] = Append(@, id), !.nextId = id + 1, !.count = @ + 1,
             !.fps = @ \cup {Fp(ct, ToSet(sg), P)}]

\* add_signer / remove_signer / add_policy / remove_policy all end in: validate, set new fingerprint
\* (refusing a taken one), drop the old fingerprint, store the list
EditOk(id, sg, pl) ==
  /\ Len(sg) <= LimSigners /\ Len(pl) <= LimPolicies /\ (sg # <<>> \/ pl # <<>>)
  /\ Fp(st.meta[id].ct, ToSet(sg), ToSet(pl)) \notin st.fps
EditEff(id, sg, pl) ==
  [st EXCEPT !.sgn[id] = sg, !.pls[id] = pl,
             !.fps = (@ \cup {Fp(st.meta[id].ct, ToSet(sg), ToSet(pl))})
                     \ {Fp(st.meta[id].ct, ToSet(st.sgn[id]), ToSet(st.pls[id]))}]

ImplOk(o, t) ==
  CASE o.op = "cfg"        -> TRUE
    [] o.op = "init"       -> ~st.acct /\ AddOk("D", NoVu, o.signers, o.pols, t)
    [] o.op = "add_rule"   -> AddOk(o.ct, o.vu, o.signers, o.pols, t)
    [] o.op = "rm_rule"    -> Exists(o.id)
    [] o.op = "upd_name"   -> Exists(o.id)
    [] o.op = "upd_vu"     -> Exists(o.id) /\ (o.vu = NoVu \/ o.vu >= t)
    [] o.op = "add_signer" -> Exists(o.id) /\ o.s \notin ToSet(st.sgn[o.id])
                              /\ EditOk(o.id, Append(st.sgn[o.id], o.s), st.pls[o.id])
    [] o.op = "rm_signer"  -> Exists(o.id) /\ o.s \in ToSet(st.sgn[o.id])
                              /\ EditOk(o.id, Remove(st.sgn[o.id], o.s), st.pls[o.id])
    [] o.op = "add_policy" -> Exists(o.id) /\ o.p \notin ToSet(st.pls[o.id])
                              /\ EditOk(o.id, st.sgn[o.id], Append(st.pls[o.id], o.p))
    [] o.op = "rm_policy"  -> Exists(o.id) /\ o.p \in ToSet(st.pls[o.id])
                              /\ EditOk(o.id, st.sgn[o.id], Remove(st.pls[o.id], o.p))

ImplEff(o) ==
  CASE o.op = "cfg"        -> [st EXCEPT !.pcfg[o.p] = [k |-> o.k, rf |-> o.rf]]
    [] o.op = "init"       -> [AddEff("D", NoVu, "multisig", o.signers, o.pols) EXCEPT !.acct = TRUE]
    [] o.op = "add_rule"   -> AddEff(o.ct, o.vu, o.name, o.signers, o.pols)
    [] o.op = "rm_rule"    -> [st EXCEPT !.meta = Without(@, o.id), !.sgn = Without(@, o.id), !.pls = Without(@, o.id),
                                         !.fps = @ \ {Fp(st.meta[o.id].ct, ToSet(st.sgn[o.id]), ToSet(st.pls[o.id]))},
                                         !.ids[st.meta[o.id].ct] = Remove(@, o.id), !.count = @ - 1]
    [] o.op = "upd_name"   -> [st EXCEPT !.meta[o.id].name = o.name]
    [] o.op = "upd_vu"     -> [st EXCEPT !.meta[o.id].vu = o.vu]
    [] o.op = "add_signer" -> EditEff(o.id, Append(st.sgn[o.id], o.s), st.pls[o.id])
    [] o.op = "rm_signer"  -> EditEff(o.id, Remove(st.sgn[o.id], o.s), st.pls[o.id])
    [] o.op = "add_policy" -> EditEff(o.id, st.sgn[o.id], Append(st.pls[o.id], o.p))
    [] o.op = "rm_policy"  -> EditEff(o.id, st.sgn[o.id], Remove(st.pls[o.id], o.p))

(* do_check_auth --------------------------------------------------------------*)
\* get_valid_context_rules: unexpired rules of the type, last added first, then the Default ones
Expired(id, t) == LET vu == st.meta[id].vu IN
                  vu # NoVu /\ (IF BUG = "expiry_late" THEN vu + 1 < t ELSE vu < t)
ValidOf(ct, t) == LET v == SelectSeq(st.ids[ct], LAMBDA i : ~Expired(i, t)) IN
                  IF BUG = "oldest_first" THEN v ELSE Rev(v)
Cand(c, t) == IF BUG = "default_first" THEN ValidOf("D", t) \o ValidOf(TypeOf(c), t)
              ELSE ValidOf(TypeOf(c), t) \o ValidOf("D", t)
\* get_authenticated_signers
AuthOf(id, sup) == IF BUG = "all_supplied" THEN sup ELSE ToSet(SelectSeq(st.sgn[id], LAMBDA s : s \in sup))
PolYes(p, id, sup) == Cardinality(AuthOf(id, sup)) >= st.pcfg[p].k
RuleOk(id, sup) == IF st.pls[id] = <<>> THEN Len(st.sgn[id]) = Cardinality(AuthOf(id, sup))
                   ELSE \A p \in ToSet(st.pls[id]) : PolYes(p, id, sup)
\* position of the first candidate that validates the context (0: none)
Pos(cs, sup) == LET ok == {j \in DOMAIN cs : RuleOk(cs[j], sup)} IN IF ok = {} THEN 0 ELSE MinOf(ok)

Call(p, id, c, sup, verdict) == [p |-> p, rule |-> id, ctx |-> c, sg |-> AuthOf(id, sup), ok |-> verdict]
\* can_enforce calls made while validating context c over the candidates cs, the first validating one at
\* position j: every rule tried, its policies in order up to the first refusal
CanCalls(c, cs, j, sup) ==
  LET tried == {cs[i] : i \in 1 .. (IF j = 0 THEN Len(cs) ELSE j)} IN
  UNION {LET pl == st.pls[id]
             no == {q \in DOMAIN pl : ~PolYes(pl[q], id, sup)}
             upto == IF no = {} THEN Len(pl) ELSE MinOf(no)
         IN {Call(pl[q], id, c, sup, PolYes(pl[q], id, sup)) : q \in 1 .. upto} : id \in tried}

RECURSIVE EnfSeq(_, _, _, _)
EnfSeq(j, cx, pick, sup) ==
  IF j > Len(cx) THEN <<>>
  ELSE LET id == pick[j]  pl == st.pls[id] IN
       [q \in 1 .. Len(pl) |-> Call(pl[q], id, cx[j], sup, ~st.pcfg[pl[q]].rf)] \o EnfSeq(j + 1, cx, pick, sup)
UpToRefusal(s) == LET no == {j \in DOMAIN s : ~s[j].ok} IN IF no = {} THEN s ELSE SubSeq(s, 1, MinOf(no))

CheckRun(o, t) ==
  LET authOk == BUG = "skip_auth" \/ o.bad = {}
      cands  == [j \in DOMAIN o.ctxs |-> Cand(o.ctxs[j], t)]
      pos    == [j \in DOMAIN o.ctxs |-> Pos(cands[j], o.sigs)]
      pick   == [j \in DOMAIN o.ctxs |-> IF pos[j] = 0 THEN -1 ELSE cands[j][pos[j]]]
      miss   == {j \in DOMAIN o.ctxs : pos[j] = 0}
      valid  == authOk /\ miss = {}
      enf    == IF valid THEN UpToRefusal(EnfSeq(1, o.ctxs, pick, o.sigs)) ELSE <<>>
      ok     == valid /\ \A j \in DOMAIN enf : enf[j].ok
      seen   == IF miss = {} THEN DOMAIN o.ctxs ELSE 1 .. MinOf(miss)
  IN [ok |-> ok,
      log |-> [ver |-> IF BUG = "skip_auth" THEN {}
                       ELSE {[s |-> s, ok |-> s \notin o.bad] : s \in {x \in o.sigs : ~IsDelegated(x)}},
               can |-> IF authOk THEN UNION {CanCalls(o.ctxs[j], cands[j], pos[j], o.sigs) : j \in seen} ELSE {},
               enf |-> enf,
               commit |-> [p \in Pols |-> IF ok THEN Cardinality({j \in DOMAIN enf : enf[j].p = p}) ELSE 0]]]

NoLog == [ver |-> {}, can |-> {}, enf |-> <<>>, commit |-> [p \in Pols |-> 0]]

(* observation through the public getters --------------------------------------*)
ObsOf(s) ==
  LET present == SelectSeq([i \in 1 .. s.nextId |-> i - 1], LAMBDA i : i \in DOMAIN s.meta) IN
  [count |-> s.count, n |-> MaxOf(2, s.nextId + 1),
   rules |-> [j \in DOMAIN present |-> LET i == present[j] IN
                [id |-> i, ct |-> s.meta[i].ct, vu |-> s.meta[i].vu, name |-> s.meta[i].name,
                 signers |-> s.sgn[i], pols |-> s.pls[i]]],
   types |-> [t \in CTs |-> [ids |-> s.ids[t], eq |-> TRUE]]]

(* behaviours -------------------------------------------------------------------*)
Op(kind) == [op |-> kind, dt |-> 0, id |-> -1, ct |-> "", vu |-> NoVu, name |-> "", signers |-> <<>>, pols |-> {},
             s |-> "", p |-> "", k |-> 0, rf |-> FALSE, sigs |-> {}, bad |-> {}, ctxs |-> <<>>]

VuAt(off, t) == IF off = 99 THEN NoVu ELSE t + off - 10
SomeExpiry == \E i \in DOMAIN st.meta : st.meta[i].vu # NoVu
BadChoices(S) == IF BadMode = "any" THEN {{}} \cup {{x} : x \in S}
                 ELSE {{}} \cup (IF S = {} THEN {} ELSE {{CHOOSE x \in S : TRUE}})

MgmtOps(dt) ==
  LET t == now + dt  I == 0 .. st.nextId IN
     (IF st.count < GenRules
      THEN {[Op("add_rule") EXCEPT !.dt = dt, !.ct = ct, !.vu = VuAt(off, t), !.name = "r", !.signers = SignersOf(R), !.pols = PolsOf(R)]
              : ct \in CTs, off \in VUoffs, R \in RSets}
      ELSE {})
  \cup {[Op("rm_rule") EXCEPT !.dt = dt, !.id = i] : i \in I}
  \cup {[Op("upd_name") EXCEPT !.dt = dt, !.id = i, !.name = "n"] : i \in I}
  \cup {[Op("upd_vu") EXCEPT !.dt = dt, !.id = i, !.vu = VuAt(off, t)] : i \in I, off \in VUoffs}
  \cup {[Op(k) EXCEPT !.dt = dt, !.id = i, !.s = s] : k \in {"add_signer", "rm_signer"}, i \in I, s \in Signers}
  \cup {[Op(k) EXCEPT !.dt = dt, !.id = i, !.p = p] : k \in {"add_policy", "rm_policy"}, i \in I, p \in Pols}

Init == /\ st = StInit /\ now = Now0
        /\ g = GInit /\ viol = {} /\ hist = <<>>

Step(o) ==
  LET t   == now + o.dt
      run == IF o.op = "check" THEN CheckRun(o, t) ELSE [ok |-> ImplOk(o, t), log |-> NoLog]
      ns  == IF run.ok /\ o.op # "check" THEN ImplEff(o) ELSE st
      ev  == [op |-> o, now |-> t, res |-> IF run.ok THEN "ok" ELSE "fail",
              ret |-> IF run.ok /\ IsAdd(o) THEN st.nextId ELSE -1,
              obs |-> ObsOf(ns), log |-> run.log]
  IN /\ now' = t
     /\ st' = ns
     /\ g' = GNext(g, ev)
     /\ viol' = viol \cup {<<m, Key(m, g, ev)>> : m \in Failing(g, ev)}
     /\ hist' = Append(hist, ("exp" :> ev.res) @@ o)

Next ==
  LET n == Len(hist) IN
  \/ /\ n < Len(PolSeq)
     /\ \E cc \in PolCfgs :
           LET c == IF n = 0 THEN cc % 1000 ELSE cc \div 1000 IN
           /\ n = 1 => 2 * st.pcfg[PolSeq[1]].k + (IF st.pcfg[PolSeq[1]].rf THEN 1 ELSE 0) = cc % 1000
           /\ Step([Op("cfg") EXCEPT !.p = PolSeq[n + 1], !.k = c \div 2, !.rf = (c % 2 = 1)])
  \/ /\ n = Len(PolSeq)
     /\ \E R \in InitRules : Step([Op("init") EXCEPT !.ct = "D", !.name = "multisig", !.signers = SignersOf(R), !.pols = PolsOf(R)])
  \/ /\ n > Len(PolSeq) /\ ~LastIsCheck
     /\ \/ \E dt \in DTs : \E o \in MgmtOps(dt) : Step(o)
        \/ \E S \in Supplied : \E B \in BadChoices(S) : \E b \in Batches :
              \E dt \in (IF SomeExpiry THEN CheckDTs ELSE {0}) :
                 Step([Op("check") EXCEPT !.dt = dt, !.sigs = S, !.bad = B, !.ctxs = BatchOf(b)])

Spec == Init /\ [][Next]_vars

\* Depth counts the management calls; cfg, init and the final check come on top
Bound == Len(hist) <= Len(PolSeq) + 1 + Depth + (IF LastIsCheck THEN 1 ELSE 0)

\* arithmetic digest of a behaviour (only used to thin out the printed behaviours deterministically)
NameCode(x) == CASE x \in {"s1", "c1", "p1"} -> 1 [] x \in {"s2", "c2", "p2"} -> 2 [] x \in {"d", "w1"} -> 4
                 [] x \in {"u", "v1"} -> 8 [] x = "D" -> 3 [] OTHER -> 0
RECURSIVE SetCode(_)
SetCode(S) == IF S = {} THEN 0 ELSE LET x == CHOOSE y \in S : TRUE IN NameCode(x) + SetCode(S \ {x})
OpCode(h) == h.id * 7 + h.vu * 3 + h.dt * 5 + NameCode(h.ct) * 11 + SetCode(ToSet(h.signers)) * 13 + SetCode(h.pols) * 17
             + NameCode(h.s) + NameCode(h.p) * 19 + h.k * 23 + SetCode(h.sigs) * 29 + SetCode(h.bad) * 31
             + SetCode(ToSet(h.ctxs)) * 37 + Len(h.ctxs) * 41
RECURSIVE HistCode(_, _)
HistCode(h, i) == IF i > Len(h) THEN 0 ELSE i * OpCode(h[i]) + HistCode(h, i + 1)

\* every other printed behaviour whose final batch is a chain of different call targets is replayed end-to-end
\* (op "e2e": the host derives payload and contexts from a genuine authorization entry); same expected result
E2eEligible(o) == /\ \A i \in DOMAIN o.ctxs : o.ctxs[i] \in {"c1", "c2", "c3"}
                  /\ Len(o.ctxs) = 1 \/ (Len(o.ctxs) = 2 /\ o.ctxs[1] # o.ctxs[2])
Twin(h) == IF E2eEligible(h[Len(h)]) /\ (HistCode(h, 1) \div EmitMod) % 2 = 0
           THEN [h EXCEPT ![Len(h)].op = "e2e"] ELSE h

EmitReplay == (Emit /\ hist'[Len(hist')].op = "check" /\ HistCode(hist', 1) % EmitMod = 0)
              => PrintT(<<"REPLAY", ToJson(Twin(hist'))>>)

(* what TLC checks ----------------------------------------------------------*)
NoViolation == viol = {}

\* the implementation-shaped storage agrees with the plain map of rules
Refines ==
  /\ DOMAIN st.meta = DOMAIN g.rules /\ DOMAIN st.sgn = DOMAIN g.rules /\ DOMAIN st.pls = DOMAIN g.rules
  /\ st.count = Cardinality(DOMAIN g.rules)
  /\ st.nextId = g.maxid + 1
  /\ \A i \in DOMAIN g.rules :
        /\ i < st.nextId
        /\ st.meta[i].ct = g.rules[i].ct /\ st.meta[i].vu = g.rules[i].vu
        /\ ToSet(st.sgn[i]) = g.rules[i].signers /\ ~HasDup(st.sgn[i])
        /\ ToSet(st.pls[i]) = g.rules[i].pols /\ ~HasDup(st.pls[i])
        /\ Fp(st.meta[i].ct, ToSet(st.sgn[i]), ToSet(st.pls[i])) \in st.fps
  /\ Cardinality(st.fps) = st.count
  /\ \A t \in CTs :
        /\ ToSet(st.ids[t]) = {i \in DOMAIN g.rules : g.rules[i].ct = t}
        /\ \A a, b \in DOMAIN st.ids[t] : a < b => st.ids[t][a] < st.ids[t][b]
  /\ \A p \in DOMAIN g.pol : st.pcfg[p] = g.pol[p]
=============================================================================
