------------------------------ MODULE MC_Votes ------------------------------
(***************************************************************************)
(* Implementation-shaped model of packages/governance/src/votes/storage.rs *)
(* (voting units, delegatee map, per-delegate and total-supply checkpoint  *)
(* lists with push-or-overwrite and the binary-search lookup) underneath a *)
(* votes-enabled token (fungible Base::update + FungibleVotes wrappers, as  *)
(* wired in examples/fungible-votes: mint is owner-gated), checked         *)
(* exhaustively by TLC against the monitors of Votes.tla and used as the   *)
(* generator of the behaviours replayed on the real contracts.             *)
(***************************************************************************)
EXTENDS Votes, TLC, Json

CONSTANTS Acct,     \* model accounts
          Amts,     \* amounts of mint / burn / transfer
          DTs,      \* ledgers advanced before a call (0: several calls within one ledger)
          Auths,    \* "all": every subset of Acct + owner authorises; "parties": every subset
                    \* of the parties of the call; "exact": exactly the party the code asks
          Depth,    \* bound on the number of calls
          Now0,     \* ledger at deployment
          BUG,      \* "none" | "append" (a push within the same ledger appends a second
                    \* checkpoint instead of overwriting) | "search" (the binary search
                    \* compares with < instead of <=) | "stale" (a push within the same
                    \* ledger is dropped)
          Emit      \* TRUE: print one REPLAY line per generated transition

Owner == "o"

VARIABLES bal, supply,   \* token: Balance(a), TotalSupply
          units,         \* votes: VotingUnits(a)
          deleg,         \* votes: Delegatee(a)  (NoOne: no entry)
          cp,            \* votes: cp[d] = <<[l, v]>>  DelegateCheckpoint(d, i), NumCheckpoints(d)
          cpT,           \* votes: TotalSupplyCheckpoint(i), NumTotalSupplyCheckpoints
          now, g, viol, hist

impl == <<bal, supply, units, deleg, cp, cpT>>
vars == <<bal, supply, units, deleg, cp, cpT, now, g, viol, hist>>
View == <<bal, supply, units, deleg, cp, cpT, now, g, viol, Len(hist)>>

(* checkpoints ---------------------------------------------------------------*)
LastV(s) == IF Len(s) = 0 THEN 0 ELSE s[Len(s)].v

\* push_checkpoint(type, op, delta) at ledger t; delta is signed here (checked_sub cannot
\* fail in reachable states: a delegate's votes are never below the units moved away)
Push(s, delta, t) ==
  LET n == Len(s)  v == LastV(s) + delta IN
  IF n > 0 /\ s[n].l = t
  THEN CASE BUG = "append" -> Append(s, [l |-> t, v |-> v])
         [] BUG = "stale"  -> s
         [] OTHER          -> [s EXCEPT ![n] = [l |-> t, v |-> v]]
  ELSE Append(s, [l |-> t, v |-> v])

\* lookup_checkpoint_at: the while loop as a recursive operator (indices 1-based here,
\* 0-based in the code; mid = low + ceil((high - low) / 2))
RECURSIVE Search(_, _, _, _)
Search(s, l, lo, hi) ==
  IF lo < hi
  THEN LET mid == lo + ((hi - lo) + 1) \div 2 IN
       IF (IF BUG = "search" THEN s[mid].l < l ELSE s[mid].l <= l)
       THEN Search(s, l, mid, hi) ELSE Search(s, l, lo, mid - 1)
  ELSE lo

Lookup(s, l) ==
  LET n == Len(s) IN
  IF n = 0 THEN 0
  ELSE IF s[n].l <= l THEN s[n].v
  ELSE IF s[1].l > l THEN 0
  ELSE s[Search(s, l, 1, n)].v

\* get_votes_at_checkpoint / get_total_supply_at_checkpoint at ledger t: -1 = refused
QueryAt(s, l, t) == IF l >= t THEN -1 ELSE Lookup(s, l)

(* the code, in its own order of checks ------------------------------------*)
ImplOk(o, t) ==
  CASE o.op = "mint"     -> Owner \in o.auth /\ o.amt >= 0             \* only_owner; Base::update
    [] o.op = "transfer" -> o.from \in o.auth /\ o.amt >= 0 /\ bal[o.from] >= o.amt
    [] o.op = "burn"     -> o.from \in o.auth /\ o.amt >= 0 /\ bal[o.from] >= o.amt
    [] o.op = "delegate" -> o.from \in o.auth /\ deleg[o.from] # o.to  \* SameDelegate

\* move_delegate_votes(from, to, amount) on checkpoint lists c
MoveVotes(c, fd, td, amt, t) ==
  IF amt = 0 \/ fd = td THEN c
  ELSE LET c1 == IF fd # NoOne THEN [c EXCEPT ![fd] = Push(@, 0 - amt, t)] ELSE c
       IN IF td # NoOne THEN [c1 EXCEPT ![td] = Push(@, amt, t)] ELSE c1

\* transfer_voting_units(from, to, amount); f / d = NoOne stands for None
TVU(f, d, amt, t) ==
  IF amt = 0 THEN UNCHANGED <<units, cp, cpT>>
  ELSE LET fd == IF f # NoOne THEN deleg[f] ELSE NoOne
           td == IF d # NoOne THEN deleg[d] ELSE NoOne
           u1 == IF f # NoOne THEN [units EXCEPT ![f] = @ - amt] ELSE units
           T1 == IF f # NoOne THEN cpT ELSE Push(cpT, amt, t)
           u2 == IF d # NoOne THEN [u1 EXCEPT ![d] = @ + amt] ELSE u1
           T2 == IF d # NoOne THEN T1 ELSE Push(T1, 0 - amt, t)
       IN /\ units' = u2 /\ cpT' = T2
          /\ cp' = MoveVotes(cp, fd, td, amt, t)

ImplEffect(o, t) ==
  CASE o.op = "mint"     -> /\ supply' = supply + o.amt
                            /\ bal' = [bal EXCEPT ![o.to] = @ + o.amt]
                            /\ TVU(NoOne, o.to, o.amt, t) /\ UNCHANGED deleg
    [] o.op = "transfer" -> /\ bal' = LET b1 == [bal EXCEPT ![o.from] = @ - o.amt]
                                      IN [b1 EXCEPT ![o.to] = @ + o.amt]
                            /\ TVU(o.from, o.to, o.amt, t) /\ UNCHANGED <<supply, deleg>>
    [] o.op = "burn"     -> /\ supply' = supply - o.amt
                            /\ bal' = [bal EXCEPT ![o.from] = @ - o.amt]
                            /\ TVU(o.from, NoOne, o.amt, t) /\ UNCHANGED deleg
    [] o.op = "delegate" -> /\ deleg' = [deleg EXCEPT ![o.from] = o.to]
                            /\ cp' = MoveVotes(cp, deleg[o.from], o.to, units[o.from], t)
                            /\ UNCHANGED <<bal, supply, units, cpT>>

AuthSets(parties, needed) ==
  CASE Auths = "all"     -> SUBSET (Acct \cup {Owner})
    [] Auths = "parties" -> SUBSET parties
    [] OTHER             -> {{needed}}

MintOps  == UNION {{[op |-> "mint", from |-> NoOne, to |-> a, by |-> NoOne, amt |-> q, auth |-> au] :
                      au \in AuthSets({Owner, a}, Owner)} : <<a, q>> \in Acct \X Amts}
BurnOps  == UNION {{[op |-> "burn", from |-> a, to |-> NoOne, by |-> NoOne, amt |-> q, auth |-> au] :
                      au \in AuthSets({Owner, a}, a)} : <<a, q>> \in Acct \X Amts}
XferOps  == UNION {{[op |-> "transfer", from |-> x[1], to |-> x[2], by |-> NoOne, amt |-> x[3], auth |-> au] :
                      au \in AuthSets({x[1], x[2]}, x[1])} : x \in Acct \X Acct \X Amts}
DelegOps == UNION {{[op |-> "delegate", from |-> x[1], to |-> x[2], by |-> NoOne, amt |-> 0, auth |-> au] :
                      au \in AuthSets({x[1], x[2]}, x[1])} : x \in Acct \X Acct}
AllOps == MintOps \cup BurnOps \cup XferOps \cup DelegOps

Init == /\ bal = [a \in Acct |-> 0] /\ supply = 0 /\ units = [a \in Acct |-> 0]
        /\ deleg = [a \in Acct |-> NoOne] /\ cp = [a \in Acct |-> <<>>] /\ cpT = <<>>
        /\ now = Now0 /\ g = GInit("fungible", Acct) /\ viol = {} /\ hist = <<>>

\* The event is bound by a quantifier over a singleton so that TLC evaluates it (and the
\* whole observation) once, after the primed implementation state has been determined.
Step(o, dt) ==
  LET t  == now + dt
      ok == ImplOk(o, t)
  IN /\ now' = t
     /\ IF ok THEN ImplEffect(o, t) ELSE UNCHANGED impl
     /\ \E ev \in {[op |-> o, now |-> t, res |-> IF ok THEN "ok" ELSE "fail",
             obs |-> [bal |-> bal', supply |-> supply', units |-> units', deleg |-> deleg',
                      votes |-> [a \in Acct |-> LastV(cp'[a])], total |-> LastV(cpT'),
                      past |-> [i \in 1..t |-> [l |-> i - 1,
                                               v |-> [a \in Acct |-> QueryAt(cp'[a], i - 1, t)],
                                               t |-> QueryAt(cpT', i - 1, t)]],
                      fut |-> [i \in 1..2 |->
                                 [l |-> t + i - 1,
                                  v |-> IF \A a \in Acct : QueryAt(cp'[a], t + i - 1, t) = -1 THEN "fail" ELSE "ok",
                                  t |-> IF QueryAt(cpT', t + i - 1, t) = -1 THEN "fail" ELSE "ok"]],
                      futmax |-> [v |-> "fail", t |-> "fail"]]]} :
          /\ g' = GNext(g, ev)
          /\ viol' = viol \cup {<<m, Key(m, g, ev)>> : m \in FailingX(g, g', ev)}
          /\ hist' = Append(hist, [op |-> o.op, from |-> o.from, to |-> o.to, by |-> o.by, amt |-> o.amt,
                                   auth |-> o.auth, dt |-> dt, exp |-> ev.res])

Next == \E dt \in DTs : \E o \in AllOps : Step(o, dt)

Spec == Init /\ [][Next]_vars

Bound == Len(hist) <= Depth

EmitReplay == Emit => PrintT(<<"REPLAY", ToJson(hist')>>)

\* TLC skips the action constraint for successors that already fail the state constraint, so
\* with Bound + EmitReplay the last layer of generated transitions is never printed.  The
\* emitting configurations therefore use this action constraint alone (no CONSTRAINT): every
\* generated transition is printed, and only histories of at most Depth calls are extended.
EmitBound == /\ Emit => PrintT(<<"REPLAY", ToJson(hist')>>)
             /\ Len(hist') <= Depth

(* what TLC checks ----------------------------------------------------------*)
NoViolation == viol = {}

Increasing(s) == \A i \in 1..(Len(s) - 1) : s[i].l < s[i + 1].l

\* the implementation-shaped state agrees with the ghost state: units follow the token
\* balance, the latest checkpoints are the sums the property names, every lookup about a
\* past ledger returns the recorded history, and checkpoint ledgers strictly increase
Refines ==
  /\ bal = g.bal /\ units = bal /\ deleg = g.deleg
  /\ supply = SumOver(bal, Acct)
  /\ \A d \in Acct : LastV(cp[d]) = PowerOf(units, deleg, Acct, d)
  /\ LastV(cpT) = TotalOf(units, Acct)
  /\ \A l \in 0..(now - 1) : /\ \A d \in Acct : Lookup(cp[d], l) = HistP(g.tl, d, l)
                             /\ Lookup(cpT, l) = HistT(g.tl, l)
  /\ \A d \in Acct : Increasing(cp[d])
  /\ Increasing(cpT)
=============================================================================
