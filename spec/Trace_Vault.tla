---------------------------- MODULE Trace_Vault ----------------------------
(* Trace validation for Vault.tla (conventions: see Trace_RoleTransfer). *)
EXTENDS Vault, TLC, Json, IOUtils

Rec == ndJsonDeserialize(IOEnv.TRACE)

VARIABLES l, g, dead, cnt
vars == <<l, g, dead, cnt>>

ToSet(s) == {s[i] : i \in DOMAIN s}
Norm(ev) == [ev EXCEPT !.op = [op |-> ev.op.op, x |-> ev.op.x, recv |-> ev.op.recv, own |-> ev.op.own,
                                oper |-> ev.op.oper, auth |-> ToSet(ev.op.auth), nosub |-> ev.op.nosub]]

Init == l = 1 /\ g = [P |-> 1] /\ dead = {} /\ cnt = [m \in Monitors |-> 0]

Report(ev, m) == PrintT(<<"VIOL", ToJson([run |-> ev.run, i |-> ev.i, line |-> l, mon |-> m,
                                          prop |-> PropOf(m), key |-> Key(m, g, ev), after |-> dead])>>)

Next ==
  /\ l <= Len(Rec)
  /\ l' = l + 1
  /\ LET raw == Rec[l] IN
     IF raw.op.op = "reset"
     THEN g' = GInit(raw.obs, raw.op.off) /\ dead' = {} /\ UNCHANGED cnt
     ELSE LET ev == Norm(raw)  f == {m \in Failing(g, ev) : PropOf(m) \notin dead} IN
          /\ \A m \in f : Report(ev, m)
          /\ dead' = dead \cup {PropOf(m) : m \in f}
          /\ g' = GNext(g, ev)
          /\ cnt' = [m \in Monitors |-> cnt[m] + IF Ante(m, g, ev) THEN 1 ELSE 0]
  /\ (l = Len(Rec) => PrintT(<<"DONE", l, ToJson(cnt')>>))

Spec == Init /\ [][Next]_vars
=============================================================================
