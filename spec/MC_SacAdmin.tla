---------------------------- MODULE MC_SacAdmin ----------------------------
(* Implementation-shaped model of the two SAC-admin examples in front of a Stellar Asset Contract:   *)
(* the SAC's own checks in the host's order (amount sign, balance entry / clawbackable, administrator's *)
(* authorization, balance authorized / sufficient), the generic example's __check_auth (signature,    *)
(* context extraction, operator / chief / cumulative limit) and the wrapper's role gates.             *)
EXTENDS SacAdmin, TLC, Json

CONSTANTS Depth, EmitEvery,
          Flavour,       \* "generic" | "wrapper"
          Max, Curr,     \* constructor arguments of the generic example: the first operator's limit
          MGMT,          \* "code": what the tree does -- (1) a management call's context names the admin contract, not
                         \*         the SAC, and extract_sac_contract_context refuses it (SACAddressMismatch); (2) the amount
                         \*         of mint / clawback is looked up at argument index 2, which a genuine SAC call does not
                         \*         have (SACMissingFnParam);
                         \* "intended": such a context is judged by the chief rule, the amount is found
          BUG            \* "" | "limit_single" | "remove_keeps" | "badsig_ok" | "role_any_key" | "wrap_no_role" | "wrap_no_auth"

VARIABLES sadmin, sbal, sauthz, sexist,     \* the SAC: administrator, balance entries (amount, authorized, existence)
          oper, lim,                        \* generic: Operator(k) entries, MintingLimit(k) entries
          mgrs,                             \* wrapper: holders of the "manager" role
          g, viol, hist
impl == <<sadmin, sbal, sauthz, sexist, oper, lim, mgrs>>
vars == <<sadmin, sbal, sauthz, sexist, oper, lim, mgrs, g, viol, hist>>
View == <<sadmin, sbal, sauthz, sexist, oper, lim, mgrs, g, viol, Len(hist)>>

Keys == {"kc", "ko", "kx"}
Chief == "kc"
WAdmin == "a"
NoLim == [set |-> FALSE, max |-> 0, curr |-> 0]

\* ---- the generic example's __check_auth for one context --------------------------------------
SigOk(o) == o.key # None /\ (o.sig = "good" \/ BUG = "badsig_ok")
Rule(f, o) ==
  CASE f = "mint" -> /\ MGMT = "intended"                                   \* get_fn_param(.., MINT_AMOUNT_INDEX)
                     /\ (o.key \in oper \/ BUG = "role_any_key")
                     /\ lim[o.key].set                                   \* expect("limit not set")
                     /\ (IF BUG = "limit_single" THEN o.amt ELSE lim[o.key].curr + o.amt) <= lim[o.key].max
    [] f = "clawback" -> MGMT = "intended" /\ (o.key \in oper \/ BUG = "role_any_key")
    [] f = "set_authorized" -> o.key \in oper \/ BUG = "role_any_key"
    [] OTHER -> o.key = Chief                                            \* set_admin and SacFn::Unknown
CheckAuth(f, o) == SigOk(o) /\ Rule(f, o)

\* ---- the SAC administrator's authorization of a call made directly on the SAC --------------------
AdminAuth(f, o) ==
  IF sadmin # Self THEN sadmin \in o.auth
  ELSE IF Flavour = "generic" THEN CheckAuth(f, o)
  ELSE FALSE                                   \* the wrapper is no custom account

\* ---- the SAC's own conditions, split around the authorization as in the host -----------------
SacPre(o) ==
  CASE o.op = "mint"     -> o.amt >= 0
    [] o.op = "clawback" -> o.amt >= 0 /\ sexist[o.acct]
    [] OTHER -> TRUE
SacPost(o) ==
  CASE o.op = "mint"     -> sauthz[o.acct]
    [] o.op = "clawback" -> sbal[o.acct] >= o.amt
    [] OTHER -> TRUE

WrapGate(o) ==
  IF o.op = "set_admin" THEN WAdmin \in o.auth \/ BUG = "wrap_no_auth"
  ELSE /\ (o.who \in mgrs \/ BUG = "wrap_no_role")
       /\ (o.who \in o.auth \/ BUG = "wrap_no_auth")

ImplOk(o) ==
  CASE o.op \in SacFns /\ o.via = "sac"  -> SacPre(o) /\ AdminAuth(o.op, o) /\ SacPost(o)
    [] o.op \in SacFns /\ o.via = "wrap" -> WrapGate(o) /\ SacPre(o) /\ sadmin = Self /\ SacPost(o)
    [] o.op = "xfer"   -> /\ o.amt >= 0 /\ Flavour = "generic" /\ CheckAuth("xfer", o)
                          /\ sauthz[Self] /\ sbal[Self] >= o.amt /\ sauthz[o.acct]
    [] o.op \in MgmtFns -> /\ MGMT = "intended" /\ Flavour = "generic" /\ CheckAuth(o.op, o)
                           /\ (o.op = "update_limit" => lim[o.okey].set)
    [] o.op = "grant"  -> o.who \in o.auth /\ o.who = WAdmin
    [] o.op = "revoke" -> o.who \in o.auth /\ o.who = WAdmin /\ o.acct \in mgrs

\* ---- effects -----------------------------------------------------------------------------------
Charged(o) == Flavour = "generic" /\ o.op = "mint" /\ o.via = "sac" /\ sadmin = Self
ImplEffect(o) ==
  /\ sadmin' = (IF o.op = "set_admin" THEN o.acct ELSE sadmin)
  /\ sbal' = CASE o.op = "mint"     -> [sbal EXCEPT ![o.acct] = @ + o.amt]
               [] o.op = "clawback" -> [sbal EXCEPT ![o.acct] = @ - o.amt]
               [] o.op = "xfer"     -> [sbal EXCEPT ![Self] = @ - o.amt, ![o.acct] = @ + o.amt]
               [] OTHER -> sbal
  /\ sauthz' = (IF o.op = "set_authorized" THEN [sauthz EXCEPT ![o.acct] = o.flag] ELSE sauthz)
  /\ sexist' = (IF o.op \in {"mint", "set_authorized", "xfer"} THEN [sexist EXCEPT ![o.acct] = TRUE] ELSE sexist)
  /\ oper' = CASE o.op = "assign" -> oper \cup {o.okey}
               [] o.op = "remove" -> (IF BUG = "remove_keeps" THEN oper ELSE oper \ {o.okey})
               [] OTHER -> oper
  /\ lim' = CASE Charged(o)             -> [lim EXCEPT ![o.key].curr = @ + o.amt]   \* written inside __check_auth
              [] o.op = "set_limit"    -> [lim EXCEPT ![o.okey] = [set |-> TRUE, max |-> o.amt, curr |-> 0]]
              [] o.op = "update_limit" -> [lim EXCEPT ![o.okey].max = o.amt]
              [] OTHER -> lim
  /\ mgrs' = CASE o.op = "grant"  -> mgrs \cup {o.acct}
               [] o.op = "revoke" -> mgrs \ {o.acct}
               [] OTHER -> mgrs

ObsOf(ad, b, az, m) == [admin |-> ad, bal |-> b, authz |-> az, mgr |-> m]

\* ---- the calls tried in every state ---------------------------------------------------------------
Op(op, via, acct, amt, flag, key, sig, okey, who, auth) ==
  [op |-> op, via |-> via, acct |-> acct, amt |-> amt, flag |-> flag, key |-> key, sig |-> sig,
   okey |-> okey, who |-> who, auth |-> auth]
KS4 == {<<"ko", "good">>, <<"ko", "bad">>, <<"kc", "good">>, <<"kx", "good">>}
KS3 == {<<"ko", "good">>, <<"kc", "good">>, <<"kx", "good">>}
KC3 == {<<"kc", "good">>, <<"ko", "good">>, <<"kc", "bad">>}
GenericOps ==
  {Op("mint", "sac", a, q, FALSE, ks[1], ks[2], None, None, {}) : a \in {"u", "self"}, q \in {1, 2}, ks \in KS4}
  \cup {Op("mint", "sac", "u", 1, FALSE, None, None, None, None, {"n"}),
        Op("mint", "sac", "u", -1, FALSE, "ko", "good", None, None, {})}
  \cup {Op("clawback", "sac", "u", 1, FALSE, ks[1], ks[2], None, None, {}) : ks \in KS4}
  \cup {Op("set_authorized", "sac", "u", 0, f, ks[1], ks[2], None, None, {}) : f \in BOOLEAN, ks \in KS3}
  \cup {Op("set_admin", "sac", a, 0, FALSE, ks[1], ks[2], None, None, {}) : a \in {"n", "self"}, ks \in KC3}
  \cup {Op("set_admin", "sac", "self", 0, FALSE, None, None, None, None, au) : au \in {{}, {"n"}}}
  \cup {Op("xfer", "sac", "u", 1, FALSE, ks[1], ks[2], None, None, {}) : ks \in KC3}
  \cup {Op("assign", "adm", None, 0, FALSE, ks[1], ks[2], "kx", None, {}) : ks \in KC3}
  \cup {Op("remove", "adm", None, 0, FALSE, ks[1], ks[2], k, None, {}) : k \in {"ko", "kx"}, ks \in {<<"kc", "good">>, <<"ko", "good">>}}
  \cup {Op("set_limit", "adm", None, q, FALSE, "kc", "good", k, None, {}) : k \in {"ko", "kx"}, q \in {1, 3}}
  \cup {Op("set_limit", "adm", None, 3, FALSE, "ko", "good", "ko", None, {})}
  \cup {Op("update_limit", "adm", None, 4, FALSE, "kc", "good", k, None, {}) : k \in {"ko", "kx"}}
WrapperOps ==
  {Op("mint", "wrap", "u", q, FALSE, None, None, None, w, IF au THEN {w} ELSE {}) : q \in {1, 2}, w \in {"m", "b", "a"}, au \in BOOLEAN}
  \cup {Op("clawback", "wrap", "u", 1, FALSE, None, None, None, w, {w}) : w \in {"m", "b"}}
  \cup {Op("set_authorized", "wrap", "u", 0, f, None, None, None, w, {w}) : f \in BOOLEAN, w \in {"m", "b"}}
  \cup {Op("set_admin", "wrap", a, 0, FALSE, None, None, None, w, {w}) : a \in {"n", "self"}, w \in {"a", "m"}}
  \cup {Op("set_admin", "wrap", "n", 0, FALSE, None, None, None, "m", {"a"})}
  \cup {Op("mint", "sac", "u", 1, FALSE, None, None, None, None, {x}) : x \in {"m", "a", "n"}}
  \cup {Op("mint", "sac", "u", 1, FALSE, "ko", "good", None, None, {}),
        Op("set_admin", "sac", "self", 0, FALSE, None, None, None, None, {"n"})}
  \cup {Op("grant", "adm", x, 0, FALSE, None, None, None, w, {w}) : x \in {"b", "m"}, w \in {"a", "m"}}
  \cup {Op("grant", "adm", "b", 0, FALSE, None, None, None, "a", {})}
  \cup {Op("revoke", "adm", x, 0, FALSE, None, None, None, w, {w}) : x \in {"b", "m"}, w \in {"a", "m"}}
Ops == IF Flavour = "generic" THEN GenericOps ELSE WrapperOps

Init ==
  /\ sadmin = Self
  /\ sbal = [h \in Holders |-> 0] /\ sauthz = [h \in Holders |-> TRUE] /\ sexist = [h \in Holders |-> FALSE]
  /\ oper = {"ko"}
  /\ lim = [k \in Keys |-> IF k = "ko" THEN [set |-> TRUE, max |-> Max, curr |-> Curr] ELSE NoLim]
  /\ mgrs = {"m"}
  /\ g = GInit(Flavour, Max, Curr)
  /\ viol = {} /\ hist = <<>>

Step(o) ==
  LET ok == ImplOk(o)
      ev == [op |-> o, res |-> IF ok THEN "ok" ELSE "fail", obs |-> ObsOf(sadmin', sbal', sauthz', mgrs')]
  IN /\ IF ok THEN ImplEffect(o) ELSE UNCHANGED impl
     /\ g' = GStep(g, ev)
     /\ viol' = viol \cup {<<m, Key(m, g, ev)>> : m \in Failing(g, ev)}
     /\ hist' = Append(hist, o @@ [exp |-> ev.res])
Next == Len(hist) < Depth /\ \E o \in Ops : Step(o)
Bound == TRUE
EmitReplay == (EmitEvery > 0 /\ (EmitEvery = 1 \/ RandomElement(1..EmitEvery) = 1)) => PrintT(<<"REPLAY", ToJson(hist')>>)

NoViolation == viol = {}
\* the tree as it is: only the two converse monitors fail, each in its recorded situation
KnownOnly == viol \subseteq {<<"X02_chief_manages", "management_context_is_not_the_sac">>,
                             <<"X02_operator_accepted", "sac_call_has_no_argument_2">>}
Refines ==
  /\ g.sacAdmin = sadmin /\ g.bal = sbal /\ g.authz = sauthz /\ g.mgr = mgrs
  /\ \A h \in Holders : sbal[h] >= 0 /\ (sbal[h] > 0 => sexist[h])
  /\ Flavour = "generic" =>
       /\ g.ops = oper
       /\ \A k \in Keys : /\ HasLim(g, k) <=> lim[k].set
                          /\ HasLim(g, k) => (g.lim[k].max = lim[k].max /\ g.lim[k].curr = lim[k].curr)
=============================================================================
