---------------------------- MODULE SmartAccount ----------------------------
(***************************************************************************)
(* Property-level specification of the smart account's authorization check *)
(* (packages/accounts smart_account: do_check_auth and the context-rule    *)
(* registry behind it), bound to the multisig-smart-account example.       *)
(*                                                                         *)
(* Single source of truth for property C03 and for the context-rule part   *)
(* of property C20.  Pure operators over a ghost record `g` and an event   *)
(* `ev`; the same operators judge every transition of the implementation-  *)
(* shaped model MC_SmartAccount (TLC, exhaustive) and every step recorded  *)
(* from the real contracts (Trace_SmartAccount).                           *)
(*                                                                         *)
(* ev = [op, now, res, ret, obs, log]                                      *)
(*  op  = [op, dt, id, ct, vu, name, signers, pols, s, p, k, rf,           *)
(*         sigs, bad, ctxs]   (every op carries every field)               *)
(*    op.op \in {"cfg"        policy p answers can_enforce with            *)
(*                            |authenticated signers| >= k and its enforce  *)
(*                            hook refuses iff rf (collaborator set-up),    *)
(*               "init"       constructor: Default rule (signers, pols),    *)
(*               "add_rule", "rm_rule", "upd_name", "upd_vu",               *)
(*               "add_signer", "rm_signer", "add_policy", "rm_policy",      *)
(*               "check"      __check_auth with signatures for the signers  *)
(*                            `sigs` (those in `bad` carry an invalid       *)
(*                            signature / no authorization) and the         *)
(*                            context batch `ctxs`,                         *)
(*               "e2e"}       the same through the host: a call of ctxs[1]  *)
(*                            (which calls ctxs[2]) requiring the account's *)
(*                            authorization, with a genuine entry           *)
(*    context types: "D" Default, "c1".. CallContract(c1).., "w1"..       *)
(*    CreateContract(w1)..; contexts: "c1".. a call of c1.., "w1".. a       *)
(*    creation from wasm w1 without, "v1".. with constructor arguments.     *)
(*    vu = -1 stands for None.                                              *)
(*  ret = id of the rule created by init / add_rule (else -1)              *)
(*  obs = the registry through the public getters after the call:          *)
(*        count, n (ids 0..n-1 were probed with get_context_rule), rules   *)
(*        (those found: id, ct, vu, name, signers, pols as returned),       *)
(*        types (ct |-> ids returned by get_context_rules(ct), eq: every    *)
(*        returned rule equals get_context_rule(its id))                    *)
(*  log = calls received by the collaborators during the call:             *)
(*        ver  {[s, ok]} verifier calls, can {[p, rule, ctx, sg, ok]}       *)
(*        can_enforce calls, enf <<[p, rule, ctx, sg, ok]>> enforce calls   *)
(*        (attempts, in order; ok = did not refuse), commit p |-> number    *)
(*        of enforcements of p that the host committed                      *)
(***************************************************************************)
EXTENDS Integers, Sequences, FiniteSets, TLC

CONSTANTS LimRules, LimSigners, LimPolicies     \* documented capacity limits (15, 15, 5)

NoVu == -1
ToSet(s) == {s[i] : i \in DOMAIN s}
MaxOf(a, b) == IF a >= b THEN a ELSE b

\* binding convention: delegated signers (plain addresses) are named d*, all others are
\* external signers checked by the verifier contract
IsDelegated(s) == s \in {"d", "d1", "d2", "d3"}

(* ghost state ------------------------------------------------------------*)
\* rules : id |-> [ct, vu, name, signers (set), pols (set)]   the rules that exist
\* maxid : largest id ever handed out (-1: none)
\* pol   : p |-> [k, rf]  behaviour configured for the policy collaborators
\* gone  : <<type, signers, policies>> triples some rule once had and, at that time, ceased to have
GInit == [rules |-> <<>>, maxid |-> -1, pol |-> <<>>, gone |-> {}]
FpOf(r) == <<r.ct, r.signers, r.pols>>

PolCfg(g, p) == IF p \in DOMAIN g.pol THEN g.pol[p] ELSE [k |-> 0, rf |-> FALSE]
Has(g, id) == id \in DOMAIN g.rules
Without(f, x) == [y \in DOMAIN f \ {x} |-> f[y]]

GNext(g, ev) ==
  LET o == ev.op IN
  IF ev.res # "ok" THEN g ELSE
  CASE o.op = "cfg"        -> [g EXCEPT !.pol = (o.p :> [k |-> o.k, rf |-> o.rf]) @@ g.pol]
    [] o.op = "init"       -> [g EXCEPT !.rules = (ev.ret :> [ct |-> "D", vu |-> NoVu, name |-> "*",
                                                              signers |-> ToSet(o.signers), pols |-> o.pols]) @@ g.rules,
                                        !.maxid = MaxOf(g.maxid, ev.ret)]
    [] o.op = "add_rule"   -> [g EXCEPT !.rules = (ev.ret :> [ct |-> o.ct, vu |-> o.vu, name |-> o.name,
                                                              signers |-> ToSet(o.signers), pols |-> o.pols]) @@ g.rules,
                                        !.maxid = MaxOf(g.maxid, ev.ret)]
    [] ~Has(g, o.id)       -> g
    [] o.op = "rm_rule"    -> [g EXCEPT !.rules = Without(g.rules, o.id), !.gone = @ \cup {FpOf(g.rules[o.id])}]
    [] o.op = "upd_name"   -> [g EXCEPT !.rules[o.id].name = o.name]
    [] o.op = "upd_vu"     -> [g EXCEPT !.rules[o.id].vu = o.vu]
    [] o.op = "add_signer" -> [g EXCEPT !.rules[o.id].signers = @ \cup {o.s}, !.gone = @ \cup {FpOf(g.rules[o.id])}]
    [] o.op = "rm_signer" -> [g EXCEPT !.rules[o.id].signers = @ \ {o.s}, !.gone = @ \cup {FpOf(g.rules[o.id])}]
    [] o.op = "add_policy" -> [g EXCEPT !.rules[o.id].pols = @ \cup {o.p}, !.gone = @ \cup {FpOf(g.rules[o.id])}]
    [] o.op = "rm_policy" -> [g EXCEPT !.rules[o.id].pols = @ \ {o.p}, !.gone = @ \cup {FpOf(g.rules[o.id])}]
    [] OTHER               -> g

(* what the property says about a check -------------------------------------*)
TypeOf(c) == IF c = "v1" THEN "w1" ELSE IF c = "v2" THEN "w2" ELSE c
\* valid_until is the last ledger at which the rule is valid
Live(r, now) == r.vu = NoVu \/ r.vu >= now
Applies(r, c) == r.ct = TypeOf(c) \/ r.ct = "D"
\* only signers named by the rule count
Counted(r, sup) == r.signers \cap sup
TrapK == 77
TrapFree(g) == \A i \in DOMAIN g.rules : \A p \in g.rules[i].pols : PolCfg(g, p).k # TrapK
Accepts(g, p, r, sup) == Cardinality(Counted(r, sup)) >= PolCfg(g, p).k
Satisfied(g, r, sup) == IF r.pols = {} THEN r.signers \subseteq sup
                        ELSE \A p \in r.pols : Accepts(g, p, r, sup)
SatIds(g, now, c, sup) == {i \in DOMAIN g.rules : LET r == g.rules[i] IN
                              Live(r, now) /\ Applies(r, c) /\ Satisfied(g, r, sup)}
\* rule i is tried before rule j: type-specific before Default, newer (larger id) before older
Prec(g, i, j) == LET si == g.rules[i].ct # "D"  sj == g.rules[j].ct # "D" IN
                 (si /\ ~sj) \/ (si = sj /\ i > j)
Chosen(g, now, c, sup) == LET S == SatIds(g, now, c, sup) IN
                          CHOOSE i \in S : \A j \in S \ {i} : Prec(g, i, j)

\* "check" enters __check_auth directly with crafted payload and contexts; "e2e" is an invocation requiring the
\* account's authorization, authorized by a genuine entry (the host derives payload and contexts)
IsCheck(o) == o.op \in {"check", "e2e"}

\* what the property derives for a check event, computed once per event:
\*   ch[j]  the rule the property designates for context j (-1: no live rule of the type, or Default, is satisfied)
\*   cov    every context has one
Derived(g, ev) ==
  IF ~IsCheck(ev.op) THEN [cov |-> FALSE, ch |-> <<>>]
  ELSE LET ch == [j \in DOMAIN ev.op.ctxs |->
                     IF SatIds(g, ev.now, ev.op.ctxs[j], ev.op.sigs) = {} THEN -1
                     ELSE Chosen(g, ev.now, ev.op.ctxs[j], ev.op.sigs)]
       IN [cov |-> \A j \in DOMAIN ch : ch[j] # -1, ch |-> ch]
\* no enforcement hook of a designated rule refuses
NoRefusal(g, d) == \A j \in DOMAIN d.ch : \A p \in g.rules[d.ch[j]].pols : ~PolCfg(g, p).rf

\* number of enforcements of policy p the property prescribes (for rule r and context c; or in total)
ExpEnf(g, ev, d, p, r, c) == Cardinality({j \in DOMAIN d.ch : ev.op.ctxs[j] = c /\ d.ch[j] = r /\ p \in g.rules[r].pols})
ExpEnfAll(g, d, p) == Cardinality({j \in DOMAIN d.ch : p \in g.rules[d.ch[j]].pols})
LogEnf(ev, p, r, c) == Cardinality({j \in DOMAIN ev.log.enf :
                              ev.log.enf[j].p = p /\ ev.log.enf[j].rule = r /\ ev.log.enf[j].ctx = c})

(* what the property says about the registry --------------------------------*)
IsAdd(o) == o.op \in {"init", "add_rule"}
NewCt(o) == IF o.op = "init" THEN "D" ELSE o.ct
NewVu(o) == IF o.op = "init" THEN NoVu ELSE o.vu
HasDup(s) == Cardinality(ToSet(s)) # Len(s)
\* a rule other than `self` already has this type, signer set and policy set
FpTaken(g, self, ct, S, P) == \E j \in DOMAIN g.rules \ {self} :
                                 g.rules[j].ct = ct /\ g.rules[j].signers = S /\ g.rules[j].pols = P

MustRefuse(g, o) ==
  CASE IsAdd(o)            -> HasDup(o.signers) \/ FpTaken(g, -1, NewCt(o), ToSet(o.signers), o.pols)
    [] o.op \in {"rm_rule", "upd_name", "upd_vu"} -> ~Has(g, o.id)
    [] o.op \in {"add_signer", "rm_signer", "add_policy", "rm_policy"} /\ ~Has(g, o.id) -> TRUE
    [] o.op = "add_signer" -> LET r == g.rules[o.id] IN o.s \in r.signers \/ FpTaken(g, o.id, r.ct, r.signers \cup {o.s}, r.pols)
    [] o.op = "rm_signer"  -> LET r == g.rules[o.id] IN o.s \notin r.signers \/ FpTaken(g, o.id, r.ct, r.signers \ {o.s}, r.pols)
    [] o.op = "add_policy" -> LET r == g.rules[o.id] IN o.p \in r.pols \/ FpTaken(g, o.id, r.ct, r.signers, r.pols \cup {o.p})
    [] o.op = "rm_policy"  -> LET r == g.rules[o.id] IN o.p \notin r.pols \/ FpTaken(g, o.id, r.ct, r.signers, r.pols \ {o.p})
    [] OTHER               -> FALSE

\* one past a documented limit
Over(g, o) ==
  CASE IsAdd(o)            -> \/ Cardinality(DOMAIN g.rules) >= LimRules
                              \/ Len(o.signers) > LimSigners \/ Cardinality(o.pols) > LimPolicies
    [] o.op = "add_signer" -> Has(g, o.id) /\ o.s \notin g.rules[o.id].signers
                              /\ Cardinality(g.rules[o.id].signers) >= LimSigners
    [] o.op = "add_policy" -> Has(g, o.id) /\ o.p \notin g.rules[o.id].pols
                              /\ Cardinality(g.rules[o.id].pols) >= LimPolicies
    [] OTHER               -> FALSE

\* exactly at a documented limit, and acceptable by every documented precondition
AtLimit(g, o, now) ==
  /\ ~Over(g, o) /\ ~MustRefuse(g, o)
  /\ CASE o.op = "add_rule"   -> /\ o.vu = NoVu \/ o.vu >= now
                                 /\ o.signers # <<>> \/ o.pols # {}
                                 /\ \/ Cardinality(DOMAIN g.rules) = LimRules - 1
                                    \/ Len(o.signers) = LimSigners \/ Cardinality(o.pols) = LimPolicies
       [] o.op = "add_signer" -> Cardinality(g.rules[o.id].signers) = LimSigners - 1
       [] o.op = "add_policy" -> Cardinality(g.rules[o.id].pols) = LimPolicies - 1
       [] OTHER               -> FALSE

\* the rule that this call would create or produce; <<>> when the call names no existing rule
Target(g, o) ==
  CASE o.op = "add_rule"   -> <<o.ct, ToSet(o.signers), o.pols>>
    [] ~Has(g, o.id)       -> <<>>
    [] o.op = "add_signer" -> <<g.rules[o.id].ct, g.rules[o.id].signers \cup {o.s}, g.rules[o.id].pols>>
    [] o.op = "rm_signer"  -> <<g.rules[o.id].ct, g.rules[o.id].signers \ {o.s}, g.rules[o.id].pols>>
    [] o.op = "add_policy" -> <<g.rules[o.id].ct, g.rules[o.id].signers, g.rules[o.id].pols \cup {o.p}>>
    [] o.op = "rm_policy"  -> <<g.rules[o.id].ct, g.rules[o.id].signers, g.rules[o.id].pols \ {o.p}>>
    [] OTHER               -> <<>>
\* re-adding what was removed: the call re-creates a (type, signers, policies) combination that existed before,
\* exists no more, and nothing documented speaks against it
ReAdd(g, o, now) ==
  /\ o.op \in {"add_rule", "add_signer", "rm_signer", "add_policy", "rm_policy"}
  /\ Target(g, o) \in g.gone
  /\ ~Over(g, o) /\ ~MustRefuse(g, o)
  /\ Target(g, o)[2] # {} \/ Target(g, o)[3] # {}
  /\ o.op = "add_rule" => (o.vu = NoVu \/ o.vu >= now)

NameOk(gn, on) == gn = "*" \/ gn = on

\* every getter answers as the map `rules`
QueryOk(rules, obs) ==
  LET R == ToSet(obs.rules) IN
  /\ obs.count = Cardinality(DOMAIN rules)
  /\ DOMAIN rules \subseteq 0 .. obs.n - 1
  /\ {r.id : r \in R} = DOMAIN rules
  /\ Len(obs.rules) = Cardinality(DOMAIN rules)
  /\ \A r \in R : r.id \in DOMAIN rules =>
        LET x == rules[r.id] IN
        /\ r.ct = x.ct /\ r.vu = x.vu /\ NameOk(x.name, r.name)
        /\ ToSet(r.signers) = x.signers /\ Len(r.signers) = Cardinality(x.signers)
        /\ ToSet(r.pols) = x.pols /\ Len(r.pols) = Cardinality(x.pols)
  /\ \A t \in DOMAIN obs.types :
        LET y == obs.types[t] IN
        /\ y.eq
        /\ ToSet(y.ids) = {i \in DOMAIN rules : rules[i].ct = t}
        /\ Len(y.ids) = Cardinality(ToSet(y.ids))
  /\ \A i \in DOMAIN rules : rules[i].ct \in DOMAIN obs.types

(* monitors ---------------------------------------------------------------*)
Monitors == {"C03_sound", "C03_precedence", "C03_signers_scope", "C03_enforce_log", "C03_complete",
             "C20_rules_query", "C20_rules_refuse", "C20_rules_capacity", "C20_rules_fresh_id", "C20_rules_readd"}

PropOf(m) == IF m \in {"C20_rules_query", "C20_rules_refuse", "C20_rules_capacity", "C20_rules_fresh_id", "C20_rules_readd"}
             THEN "C20" ELSE "C03"

\* every monitor is  Ante => Cons ; d = Derived(g, ev)
AnteD(m, g, ev, d) ==
  LET o == ev.op  ok == ev.res = "ok"  chk == IsCheck(o) IN
  CASE m = "C03_sound"          -> chk /\ ok
    [] m = "C03_precedence"     -> chk /\ ok /\ ev.log.enf # <<>> /\ d.cov
    [] m = "C03_signers_scope"  -> chk /\ (ev.log.can # {} \/ ev.log.enf # <<>>)
    [] m = "C03_enforce_log"    -> chk /\ (ok => d.cov)
    \* (a policy whose can_enforce traps - configured with k = TrapK - accepts nothing; what the account does when a policy
    \* it consults misbehaves that way is left open: no completeness is demanded while such a policy sits on a live rule)
    [] m = "C03_complete"       -> chk /\ o.bad = {} /\ d.cov /\ NoRefusal(g, d) /\ TrapFree(g)
    [] m = "C20_rules_query"    -> TRUE
    [] m = "C20_rules_refuse"   -> ~chk /\ MustRefuse(g, o)
    [] m = "C20_rules_capacity" -> ~chk /\ (Over(g, o) \/ AtLimit(g, o, ev.now))
    [] m = "C20_rules_fresh_id" -> IsAdd(o) /\ ok
    [] m = "C20_rules_readd"    -> ~chk /\ ReAdd(g, o, ev.now)

ConsD(m, g, ev, d) ==
  LET o == ev.op  ok == ev.res = "ok" IN
  CASE m = "C03_sound" ->
         \* every supplied signature verifies (the external ones through the verifier contract) ...
         /\ o.bad = {}
         /\ \A s \in o.sigs : ~IsDelegated(s) => [s |-> s, ok |-> TRUE] \in ev.log.ver
         \* ... and every context is covered by a live rule of its type (or Default) that is satisfied
         /\ d.cov
    [] m = "C03_precedence" ->
         \* the rule handed to the enforcement hooks is the one the precedence order designates
         \A q \in DOMAIN ev.log.enf : LET c == ev.log.enf[q] IN
            \E j \in DOMAIN o.ctxs : o.ctxs[j] = c.ctx /\ d.ch[j] = c.rule
    [] m = "C03_signers_scope" ->
         \A c \in ev.log.can \cup ToSet(ev.log.enf) :
            Has(g, c.rule) => c.sg \subseteq (g.rules[c.rule].signers \cap o.sigs)
    [] m = "C03_enforce_log" ->
         IF ok
         THEN LET T == {<<ev.log.enf[q].p, ev.log.enf[q].rule, ev.log.enf[q].ctx>> : q \in DOMAIN ev.log.enf}
                        \cup UNION {{<<p, d.ch[j], o.ctxs[j]>> : p \in g.rules[d.ch[j]].pols} : j \in DOMAIN o.ctxs}
              IN /\ \A t \in T : LogEnf(ev, t[1], t[2], t[3]) = ExpEnf(g, ev, d, t[1], t[2], t[3])
                 /\ \A q \in DOMAIN ev.log.enf : ev.log.enf[q].ok
                 /\ \A p \in DOMAIN ev.log.commit : ev.log.commit[p] = ExpEnfAll(g, d, p)
         ELSE \A p \in DOMAIN ev.log.commit : ev.log.commit[p] = 0
    [] m = "C03_complete"       -> ok
    [] m = "C20_rules_query"    -> QueryOk(GNext(g, ev).rules, ev.obs)
    [] m = "C20_rules_refuse"   -> ~ok
    [] m = "C20_rules_capacity" -> IF Over(g, o) THEN ~ok ELSE ok
    [] m = "C20_rules_fresh_id" -> ev.ret > g.maxid /\ ev.ret >= 0
    [] m = "C20_rules_readd"    -> ok

Ante(m, g, ev) == AnteD(m, g, ev, Derived(g, ev))
Cons(m, g, ev) == ConsD(m, g, ev, Derived(g, ev))
Holds(m, g, ev) == Ante(m, g, ev) => Cons(m, g, ev)

Key(m, g, ev) == "other"

Failing(g, ev) == LET d == Derived(g, ev) IN {m \in Monitors : AnteD(m, g, ev, d) /\ ~ConsD(m, g, ev, d)}
\* the monitors whose antecedent holds (counted by the trace checker)
Engaged(g, ev) == LET d == Derived(g, ev) IN {m \in Monitors : AnteD(m, g, ev, d)}
=============================================================================
