---------------------------- MODULE RoleTransfer ----------------------------
(***************************************************************************)
(* Property-level specification of the two-step hand-over of a contract's  *)
(* admin / owner (packages/access: role_transfer, ownable, access_control).*)
(*                                                                         *)
(* This module is the single source of truth for property C07 (and the     *)
(* "only the holder passes the gate" part of C06).  It is written in a     *)
(* functional style over a ghost record `g` so that exactly the same       *)
(* operators judge                                                         *)
(*   - every transition of the implementation-shaped model MC_RoleTransfer *)
(*     (TLC, exhaustive), and                                              *)
(*   - every step recorded from the real contracts (Trace_RoleTransfer).   *)
(*                                                                         *)
(* An event `ev` is a record                                               *)
(*   [op  |-> [op, new, until, auth, dt],   the call as issued              *)
(*    now |-> ledger sequence at the call,                                 *)
(*    res |-> "ok" | "fail",                                               *)
(*    obs |-> [holder |-> ...]]             public getters after the call  *)
(* op.op \in {"offer","cancel","accept","renounce","gated"}.               *)
(***************************************************************************)
EXTENDS Naturals, Sequences, FiniteSets

NoOne == "none"

MaxOf(a, b) == IF a >= b THEN a ELSE b

(* ghost state ------------------------------------------------------------*)
\* holder : who the property says is admin/owner
\* to/until/live : the current offer (live = made, and not since cancelled,
\*                 replaced or accepted)
\* lin : last ledger at which the *storage entry* carrying the offers may
\*       still exist given Soroban's "a TTL is never shortened" rule; only
\*       used to classify the recorded known finding, never to excuse it.
GInit(h) == [holder |-> h, to |-> NoOne, until |-> 0, live |-> FALSE, lin |-> 0]

OfferLive(g, now) == g.live /\ now <= g.until

GNext(g, ev) ==
  LET o == ev.op  ok == ev.res = "ok" IN
  IF ~ok THEN g ELSE
  CASE o.op = "offer"    -> [g EXCEPT !.to = o.new, !.until = o.until, !.live = TRUE,
                                       !.lin = IF g.lin >= ev.now THEN MaxOf(g.lin, o.until) ELSE o.until]
    [] o.op = "cancel"   -> [g EXCEPT !.live = FALSE, !.lin = 0]
    \* (an acceptance with no offer on record, or a renouncement while one is pending, is a violation reported by the
    \*  C07 monitors; the ghost keeps to the specified course: nobody gains control that way, and giving control up ends
    \*  every hand-over)
    [] o.op = "accept"   -> IF g.live THEN [g EXCEPT !.holder = g.to, !.live = FALSE, !.lin = 0] ELSE g
    [] o.op = "renounce" -> [g EXCEPT !.holder = NoOne, !.live = FALSE, !.lin = 0]
    [] OTHER             -> g

ExpectedHolder(g, ev) ==
  IF ev.res # "ok" THEN g.holder
  ELSE CASE ev.op.op = "accept"   -> IF g.live THEN g.to ELSE g.holder
         [] ev.op.op = "renounce" -> NoOne
         [] OTHER                 -> g.holder

(* monitors ---------------------------------------------------------------*)
Monitors == {"C07_accept_live", "C07_accept_auth", "C07_offer_auth", "C07_holder",
             "C07_renounce", "C07_control", "C06_gate"}

PropOf(m) == IF m = "C06_gate" THEN "C06" ELSE "C07"

\* every monitor is  Ante => Cons ; Ante is also what the trace checker counts as a
\* non-trivial evaluation of the monitor
Ante(m, g, ev) ==
  LET o == ev.op  ok == ev.res = "ok"  auth == o.auth IN
  CASE m = "C07_accept_live" -> o.op = "accept" /\ ok
    [] m = "C07_accept_auth" -> o.op = "accept" /\ ok /\ g.live
    [] m = "C07_offer_auth"  -> o.op \in {"offer", "cancel"} /\ ok
    [] m = "C07_holder"      -> TRUE
    [] m = "C07_renounce"    -> o.op = "renounce" /\ ok
    \* until acceptance the current holder keeps full control of the gated functions
    [] m = "C07_control"     -> o.op = "gated" /\ g.holder # NoOne /\ g.holder \in auth
    [] m = "C06_gate"        -> o.op = "gated" /\ ok

Cons(m, g, ev) ==
  LET o == ev.op  ok == ev.res = "ok"  auth == o.auth  now == ev.now IN
  CASE m = "C07_accept_live" -> OfferLive(g, now)
    [] m = "C07_accept_auth" -> g.to \in auth
    [] m = "C07_offer_auth"  -> g.holder # NoOne /\ g.holder \in auth
    [] m = "C07_holder"      -> ev.obs.holder = ExpectedHolder(g, ev)
    [] m = "C07_renounce"    -> g.holder # NoOne /\ g.holder \in auth /\ ~OfferLive(g, now)
    [] m = "C07_control"     -> ok
    [] m = "C06_gate"        -> g.holder # NoOne /\ g.holder \in auth

Holds(m, g, ev) == Ante(m, g, ev) => Cons(m, g, ev)

\* classification used to match entries of known_findings.json
Key(m, g, ev) ==
  IF m = "C07_accept_live" /\ g.live /\ ev.now > g.until /\ ev.now <= g.lin /\ g.to \in ev.op.auth
  THEN "expired_offer_on_longer_lived_entry"
  ELSE "other"

Failing(g, ev) == {m \in Monitors : ~Holds(m, g, ev)}
=============================================================================
