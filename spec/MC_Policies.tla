---------------------------- MODULE MC_Policies ----------------------------
(***************************************************************************)
(* Implementation-shaped model of packages/accounts/src/policies:          *)
(*   simple_threshold   : persistent entry AccountContext -> threshold      *)
(*   weighted_threshold : entry -> {signer_weights map, threshold}, checked *)
(*                        u32 sums                                          *)
(*   spending_limit     : entry -> {limit, period, history <<amount,        *)
(*                        ledger>>, cached total}; lazy eviction of the      *)
(*                        history prefix at or before now - period          *)
(*                        (saturating), capacity MAX_HISTORY_ENTRIES        *)
(* each entry point transcribed in the code's order of checks, judged by   *)
(* the monitors of Policies.tla.  One configuration per flavour.           *)
(***************************************************************************)
EXTENDS Policies, TLC, Json

CONSTANTS Flavour,       \* "simple" | "weighted" | "spending"
          Sgn,           \* signers of the context rule
          Ths,           \* thresholds tried by install / set_threshold
          Wts,           \* weights tried by set_signer_weight
          InstWts,       \* weights tried (together with -1 = no entry) by install
          MaxW,          \* u32::MAX in units of the weight scale
          Amts,          \* transfer amounts
          Limits, Pers,  \* limits / periods tried by install (0 is added: refused)
          NewLimits,     \* limits tried by set_spending_limit
          DTs,           \* ledgers advanced before an enforce / can_enforce
          Ctxs,          \* non-transfer / malformed context kinds
          MaxHist,       \* MAX_HISTORY_ENTRIES (1000 in the code)
          Depth, Now0,
          EmitEvery,     \* 0: emit nothing; k: about one REPLAY line per k transitions
          BUG            \* "" or the name of a seeded model bug (non-vacuity configurations)

VARIABLES inst, th, wts, limit, per, sh, cached, now, g, viol, hist
impl == <<inst, th, wts, limit, per, sh, cached>>
vars == <<inst, th, wts, limit, per, sh, cached, now, g, viol, hist>>
View == <<inst, th, wts, limit, per, sh, cached, now, g, viol, Len(hist)>>

NoW == [s \in Sgn |-> -1]
Zero == /\ inst' = FALSE /\ th' = 0 /\ wts' = NoW /\ limit' = 0 /\ per' = 0 /\ sh' = <<>> /\ cached' = 0

(* checked u32 arithmetic ---------------------------------------------------------*)
Ovf(x) == x > MaxW

(* spending_limit::cleanup_old_entries / the loop of can_enforce ------------------*)
Cutoff(t) == LET c == IF BUG = "evict_early" THEN t - per + 1 ELSE t - per IN IF c < 0 THEN 0 ELSE c
RECURSIVE DropOld(_, _)
DropOld(s, cut) == IF s = <<>> \/ s[1][2] > cut THEN s ELSE DropOld(Tail(s), cut)
RECURSIVE SumH(_)
SumH(s) == IF s = <<>> THEN 0 ELSE s[1][1] + SumH(Tail(s))
Kept(t) == DropOld(sh, Cutoff(t))
Removed(t) == SumH(sh) - SumH(Kept(t))

\* answer of can_enforce: "true" | "false" | "trap"
Can(o, t) ==
  CASE Flavour = "simple" ->
         IF inst /\ (IF BUG = "gt_threshold" THEN Cardinality(o.sg) > th ELSE Cardinality(o.sg) >= th)
         THEN "true" ELSE "false"
    [] Flavour = "weighted" ->
         IF ~inst THEN "false"
         ELSE LET s == IF BUG = "absent_counts" THEN WSum(wts, o.sg) + Cardinality({x \in o.sg : wts[x] < 0})
                       ELSE WSum(wts, o.sg) IN
              IF Ovf(s) THEN "trap" ELSE IF s >= th THEN "true" ELSE "false"
    [] Flavour = "spending" ->
         IF o.sg = {} \/ ~inst \/ o.ctx # "transfer" THEN "false"
         ELSE LET k == Kept(t)
                  spent == IF BUG = "can_no_evict" THEN cached ELSE cached - Removed(t) IN
              IF k # <<>> /\ Len(k) >= MaxHist THEN "false"
              ELSE IF spent + o.amt <= limit THEN "true" ELSE "false"

(* entry points: ok-condition in the code's order of checks ------------------------*)
Authd(o) == Acct \in o.auth \/ (BUG = "no_auth" /\ o.op = "enforce")
ThOk(o) == o.th # 0 /\ o.th <= Cardinality(o.rs)

ImplOk(o, t) ==
  CASE Flavour = "simple" ->
         (CASE o.op = "install"       -> Authd(o) /\ ~inst /\ ThOk(o)
            [] o.op = "uninstall"     -> Authd(o)
            [] o.op = "set_threshold" -> Authd(o) /\ ThOk(o)
            [] o.op = "enforce"       -> Authd(o) /\ Can(o, t) = "true"
            [] OTHER                  -> o.op = "can")   \* "ok" = can_enforce answered
    [] Flavour = "weighted" ->
         (CASE o.op = "install"       -> /\ Authd(o) /\ ~inst /\ ~Ovf(WTotal(o.w))
                                         /\ o.th # 0 /\ o.th <= WTotal(o.w)
            [] o.op = "uninstall"     -> Authd(o)
            [] o.op = "set_threshold" -> Authd(o) /\ o.th # 0 /\ inst /\ o.th <= WTotal(wts)
            [] o.op = "set_weight"    -> /\ Authd(o) /\ inst /\ ~Ovf(WTotal(SetW(wts, o.who, o.amt)))
                                         /\ th <= WTotal(SetW(wts, o.who, o.amt))
            [] o.op = "enforce"       -> Authd(o) /\ Can(o, t) = "true"
            [] OTHER                  -> o.op = "can" /\ Can(o, t) # "trap")
    [] Flavour = "spending" ->
         (CASE o.op = "install"       -> Authd(o) /\ o.amt > 0 /\ o.per # 0 /\ ~inst
            [] o.op = "uninstall"     -> Authd(o)
            [] o.op = "set_limit"     -> Authd(o) /\ o.amt > 0 /\ inst
            [] o.op = "enforce"       -> /\ Authd(o) /\ o.sg # {} /\ inst /\ o.ctx = "transfer"
                                         /\ cached - Removed(t) + o.amt <= limit
                                         /\ Len(Kept(t)) < MaxHist
            [] OTHER                  -> o.op = "can")

ImplEffect(o, t) ==
  CASE o.op = "install" ->
         /\ inst' = TRUE /\ sh' = <<>> /\ cached' = 0
         /\ th' = IF Flavour = "spending" THEN 0 ELSE o.th
         /\ wts' = IF Flavour = "weighted" THEN o.w ELSE NoW
         /\ limit' = IF Flavour = "spending" THEN o.amt ELSE 0
         /\ per' = IF Flavour = "spending" THEN o.per ELSE 0
    [] o.op = "uninstall"     -> Zero
    [] o.op = "set_threshold" -> inst' = TRUE /\ th' = o.th /\ UNCHANGED <<wts, limit, per, sh, cached>>
    [] o.op = "set_weight"    -> wts' = SetW(wts, o.who, o.amt) /\ UNCHANGED <<inst, th, limit, per, sh, cached>>
    [] o.op = "set_limit"     -> limit' = o.amt /\ UNCHANGED <<inst, th, wts, per, sh, cached>>
    [] o.op = "enforce" /\ Flavour = "spending" ->
         /\ sh' = Append(Kept(t), <<o.amt, t>>)
         /\ cached' = (IF BUG = "cache_drift" THEN cached ELSE cached - Removed(t)) + o.amt
         /\ UNCHANGED <<inst, th, wts, limit, per>>
    [] OTHER -> UNCHANGED impl

(* the calls tried in every state ---------------------------------------------------*)
Op(op, sg, t, w, who, amt, p, ctx, auth) ==
  [op |-> op, sg |-> sg, rs |-> Sgn, th |-> t, w |-> w, who |-> who, amt |-> amt, per |-> p,
   ctx |-> ctx, auth |-> auth]

S1 == CHOOSE s \in Sgn : TRUE
Auths == {{Acct}, {}, {"o"}}

ConfigCalls ==
  CASE Flavour = "simple" ->
         {Op("install", {}, t, NoW, S1, 0, 0, "transfer", {Acct}) : t \in Ths}
         \cup {Op("set_threshold", {}, t, NoW, S1, 0, 0, "transfer", {Acct}) : t \in Ths}
         \cup {Op(k, {}, 2, NoW, S1, 0, 0, "transfer", au) : k \in {"install", "set_threshold"}, au \in {{}, {"o"}}}
    [] Flavour = "weighted" ->
         {Op("install", {}, t, w, S1, 0, 0, "transfer", {Acct}) : t \in Ths, w \in [Sgn -> InstWts \cup {-1}]}
         \cup {Op("set_threshold", {}, t, NoW, S1, 0, 0, "transfer", {Acct}) : t \in Ths}
         \cup {Op("set_weight", {}, 0, NoW, s, x, 0, "transfer", {Acct}) : s \in Sgn, x \in Wts}
         \cup {Op("install", {}, 1, [s \in Sgn |-> 1], S1, 0, 0, "transfer", au) : au \in {{}, {"o"}}}
         \cup {Op("set_threshold", {}, 1, NoW, S1, 0, 0, "transfer", {}),
               Op("set_weight", {}, 0, NoW, S1, 1, 0, "transfer", {})}
    [] Flavour = "spending" ->
         {Op("install", {}, 0, NoW, S1, l, p, "transfer", {Acct}) : l \in Limits \cup {0}, p \in Pers \cup {0}}
         \cup {Op("set_limit", {}, 0, NoW, S1, l, 0, "transfer", {Acct}) : l \in NewLimits}
         \cup {Op("install", {}, 0, NoW, S1, 2, 2, "transfer", {}), Op("set_limit", {}, 0, NoW, S1, 4, 0, "transfer", {})}

Calls0 == ConfigCalls \cup {Op("uninstall", {}, 0, NoW, S1, 0, 0, "transfer", au) : au \in {{Acct}, {}}}

\* enforce / can_enforce (the only calls before which the ledger advances)
CallsT ==
  IF Flavour = "spending" THEN
    {Op("enforce", {S1}, 0, NoW, S1, a, 0, "transfer", {Acct}) : a \in Amts}
    \cup {Op("enforce", sg, 0, NoW, S1, 1, 0, "transfer", au) : sg \in {{}, {S1}}, au \in Auths} \* incl. no signer, no auth
    \cup {Op("enforce", {S1}, 0, NoW, S1, 1, 0, c, {Acct}) : c \in Ctxs}
    \cup {Op("can", {S1}, 0, NoW, S1, 1, 0, c, {}) : c \in Ctxs \cup {"transfer"}}
  ELSE
    {Op("enforce", sg, 0, NoW, S1, 0, 0, "transfer", au) : sg \in SUBSET Sgn, au \in {{Acct}, {}}}
    \cup {Op("enforce", Sgn, 0, NoW, S1, 0, 0, "transfer", {"o"})}
    \cup {Op("can", sg, 0, NoW, S1, 0, 0, "transfer", {}) : sg \in SUBSET Sgn}

ObsOf(i, h, w, l, p, s, c) ==
  [inst |-> i, th |-> h, w |-> w, wn |-> Cardinality({x \in Sgn : w[x] >= 0}), limit |-> l, per |-> p,
   hist |-> s, hn |-> Len(s), hh |-> 0, cached |-> c]

Init ==
  /\ inst = FALSE /\ th = 0 /\ wts = NoW /\ limit = 0 /\ per = 0 /\ sh = <<>> /\ cached = 0
  /\ now = Now0
  /\ g = GInit(Flavour, ObsOf(inst, th, wts, limit, per, sh, cached), MaxW)
  /\ viol = {} /\ hist = <<>>

Step(o, dt) ==
  LET t   == now + dt
      ok  == ImplOk(o, t)
      can == IF o.op \in {"enforce", "can"} THEN Can(o, t) ELSE "none"
      ev  == [op |-> o, now |-> t, res |-> IF ok THEN "ok" ELSE "fail", can |-> can,
              nev |-> IF ok /\ o.op = "enforce" THEN 1 ELSE 0,
              obs |-> ObsOf(inst', th', wts', limit', per', sh', cached')]
  IN /\ now' = t
     /\ IF ok THEN ImplEffect(o, t) ELSE UNCHANGED impl
     /\ g' = GNext(g, ev)
     /\ viol' = viol \cup {<<m, Key(m, g, ev)>> : m \in Failing(g, ev)}
     /\ hist' = Append(hist, o @@ [dt |-> dt, exp |-> ev.res, expc |-> can])

Next == \/ \E o \in Calls0 : Step(o, 0)
        \/ \E dt \in DTs : \E o \in CallsT : Step(o, dt)

Spec == Init /\ [][Next]_vars

Bound == Len(hist) <= Depth

\* behaviours ending in an enforce / can_enforce are emitted four times as often as the others
EmitReplay ==
  (EmitEvery > 0 /\ RandomElement(1..(IF hist'[Len(hist')].op \in {"enforce", "can"}
                                       THEN (EmitEvery + 3) \div 4 ELSE EmitEvery)) = 1)
    => PrintT(<<"REPLAY", ToJson(hist')>>)

(* what TLC checks ------------------------------------------------------------------*)
NoViolation == viol = {}

\* the implementation-shaped state is the ghost state
Refines ==
  /\ g.inst = inst
  /\ (inst /\ Flavour # "spending") => g.th = th
  /\ (inst /\ Flavour = "weighted") => \A s \in Sgn : WOf(g.w, s) = WOf(wts, s) /\ HasW(g.w, s) = HasW(wts, s)
  /\ (inst /\ Flavour = "weighted") => ~Ovf(WTotal(wts)) /\ 1 <= th /\ th <= WTotal(wts)
  /\ (inst /\ Flavour = "simple") => 1 <= th /\ th <= Cardinality(Sgn)
  /\ (inst /\ Flavour = "spending") => g.limit = limit /\ g.per = per
  \* the cache is the sum of the history, the history is bounded and ordered by ledger
  /\ cached = SumH(sh)
  /\ Len(sh) <= MaxHist
  /\ \A i \in 1..Len(sh) - 1 : sh[i][2] <= sh[i + 1][2]
  \* what the lazily evicted history still counts at the current ledger is exactly what the
  \* property's window ending now contains
  /\ (inst /\ Flavour = "spending") => SumH(Kept(now)) = InWindow(g.spends, now, g.per)
  /\ (inst /\ Flavour = "spending") => InWindow(g.spends, now, g.per) <= SumH(sh)
=============================================================================
