-------------------------- MODULE Trace_Identity --------------------------
(***************************************************************************)
(* Trace validation for Identity.tla (conventions: see Trace_RoleTransfer): *)
(* one state per recorded line; `reset` events re-initialise the ghost      *)
(* state from the set-up the harness reports (account -> identity map,      *)
(* library-backed identities, keys allowed during set-up); violations are   *)
(* collected; after a violation the rest of the run is skipped.            *)
(***************************************************************************)
EXTENDS Identity, TLC, Json, IOUtils

Rec == ndJsonDeserialize(IOEnv.TRACE)

VARIABLES l, g, dead, cnt
vars == <<l, g, dead, cnt>>

ToSet(q) == {q[j] : j \in DOMAIN q}
Norm(ev) == [ev EXCEPT !.op = [op |-> ev.op.op, t |-> ev.op.t, i |-> ev.op.i, id |-> ev.op.id,
                                k |-> ev.op.k, reg |-> ev.op.reg, ts |-> ToSet(ev.op.ts),
                                def |-> ev.op.def, until |-> ev.op.until, dt |-> ev.op.dt]]

G0 == GInit([a |-> None], {}, {})
Init == l = 1 /\ g = G0 /\ dead = FALSE /\ cnt = [m \in Monitors |-> 0]

Report(ev, m) == PrintT(<<"VIOL", ToJson([run |-> ev.run, i |-> ev.i, line |-> l, mon |-> m,
                                          prop |-> PropOf(m), key |-> Key(m, g, ev)])>>)

Next ==
  /\ l <= Len(Rec)
  /\ l' = l + 1
  /\ LET raw == Rec[l] IN
     IF raw.op.op = "reset"
     THEN /\ g' = GInit(raw.op.ident, ToSet(raw.op.lib), ToSet(raw.op.keys))
          /\ dead' = FALSE /\ UNCHANGED cnt
     ELSE IF dead THEN UNCHANGED <<g, dead, cnt>>
     ELSE LET ev == Norm(raw)  f == Failing(g, ev) IN
          /\ \A m \in f : Report(ev, m)
          /\ dead' = (f # {})
          /\ g' = GNext(g, ev)
          /\ cnt' = [m \in Monitors |-> cnt[m] + IF Ante(m, g, ev) THEN 1 ELSE 0]
  /\ (l = Len(Rec) => PrintT(<<"DONE", l, ToJson(cnt')>>))

Spec == Init /\ [][Next]_vars
=============================================================================
