------------------------ MODULE Trace_FeeForwarder ------------------------
(* Trace validation for FeeForwarder.tla (conventions: see Trace_RoleTransfer). *)
EXTENDS FeeForwarder, TLC, Json, IOUtils

Rec == ndJsonDeserialize(IOEnv.TRACE)

VARIABLES l, g, dead, cnt
vars == <<l, g, dead, cnt>>

ToSet(s) == {s[i] : i \in DOMAIN s}
Norm(ev) == [ev EXCEPT !.op = [op |-> ev.op.op, dt |-> ev.op.dt, tok |-> ev.op.tok, fee |-> ev.op.fee,
                                max |-> ev.op.max, de |-> ev.op.de, user |-> ev.op.user, rel |-> ev.op.rel,
                                rauth |-> ev.op.rauth, diff |-> ev.op.diff, tfn |-> ev.op.tfn,
                                tfail |-> ev.op.tfail, x |-> ev.op.x, tgt |-> ev.op.tgt,
                                oper |-> ev.op.oper, oauth |-> ev.op.oauth]]

Init == l = 1 /\ g = [list |-> {}] /\ dead = {} /\ cnt = [m \in Monitors |-> 0]

Report(ev, m) == PrintT(<<"VIOL", ToJson([run |-> ev.run, i |-> ev.i, line |-> l, mon |-> m,
                                          prop |-> PropOf(m), key |-> Key(m, g, ev)])>>)

Next ==
  /\ l <= Len(Rec)
  /\ l' = l + 1
  /\ LET raw == Rec[l] IN
     IF raw.op.op = "reset"
     THEN /\ g' = GInit(raw.obs, raw.op.flavour, raw.op.strategy, ToSet(raw.op.exec), ToSet(raw.op.mgr))
          /\ dead' = {} /\ UNCHANGED cnt
     \* (dead: the properties already violated in this run; the others keep being judged)
     ELSE LET ev == Norm(raw)  f == {m \in Failing(g, ev) : PropOf(m) \notin dead} IN
          /\ \A m \in f : Report(ev, m)
          /\ dead' = dead \cup {PropOf(m) : m \in f}
          /\ g' = GNext(g, ev)
          /\ cnt' = [m \in Monitors |-> cnt[m] + IF Ante(m, g, ev) THEN 1 ELSE 0]
  /\ (l = Len(Rec) => PrintT(<<"DONE", l, ToJson(cnt')>>))

Spec == Init /\ [][Next]_vars
=============================================================================
