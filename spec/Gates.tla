------------------------------- MODULE Gates -------------------------------
(***************************************************************************)
(* Property-level specification of two gates of C16 outside the token      *)
(* flavours: the pausable module through examples/pausable (a counter       *)
(* whose increment is #[when_not_paused]) and the upgrade / migrate flags   *)
(* of contract-utils/upgradeable through examples/upgradeable v1 -> v2     *)
(* (flavour "upgrade") and a v2 deployed directly, never upgraded           *)
(* (flavour "upgrade2": a migration must never complete without an upgrade).*)
(*                                                                         *)
(* Event: ev.op = [op, caller, auth]; op \in {"increment", "ereset",        *)
(*   "pause", "unpause", "upgrade", "migrate"};  ev.res; ev.ret (value      *)
(*   returned by increment, else 0); ev.obs = [paused, pending] where       *)
(*   pending = can_complete_migration().                                    *)
(***************************************************************************)
EXTENDS Integers, Sequences, FiniteSets

GInit(flavour, owner, obs) ==
  [flavour |-> flavour, owner |-> owner, paused |-> obs.paused, counter |-> 0,
   pending |-> obs.pending, everPaused |-> FALSE]

GNext(g, ev) ==
  LET o == ev.op IN
  IF ev.res # "ok" THEN g ELSE
  CASE o.op = "increment" -> [g EXCEPT !.counter = ev.ret]
    [] o.op = "ereset"    -> [g EXCEPT !.counter = 0]
    [] o.op = "pause"     -> [g EXCEPT !.paused = TRUE, !.everPaused = TRUE]
    [] o.op = "unpause"   -> [g EXCEPT !.paused = FALSE]
    [] o.op = "upgrade"   -> [g EXCEPT !.pending = TRUE]
    [] o.op = "migrate"   -> [g EXCEPT !.pending = FALSE]
    [] OTHER -> g

Monitors == {"C16_gate_pause", "C16_gate_alt", "C16_gate_works", "C16_gate_state",
             "C16_migrate_needs_upgrade", "C16_migrate_once", "C16_migrate_state"}
PropOf(m) == "C16"

Authorized(g, o) == o.caller = g.owner /\ o.caller \in o.auth

Ante(m, g, ev) ==
  LET o == ev.op  ok == ev.res = "ok" IN
  CASE m = "C16_gate_pause" -> g.flavour = "counter" /\ g.paused /\ o.op = "increment"
    [] m = "C16_gate_alt"   -> g.flavour = "counter" /\ ok /\ o.op \in {"pause", "unpause"}
    [] m = "C16_gate_works" -> g.flavour = "counter" /\ ~g.paused /\ o.op = "increment"
    [] m = "C16_gate_state" -> g.flavour = "counter"
    [] m = "C16_migrate_needs_upgrade" -> g.flavour \in {"upgrade", "upgrade2"} /\ o.op = "migrate" /\ ok
    [] m = "C16_migrate_once"  -> g.flavour \in {"upgrade", "upgrade2"} /\ o.op = "migrate" /\ g.pending /\ Authorized(g, o)
    [] m = "C16_migrate_state" -> g.flavour \in {"upgrade", "upgrade2"}

Cons(m, g, ev) ==
  LET o == ev.op  ok == ev.res = "ok" IN
  \* while paused the pausable entry point fails
  CASE m = "C16_gate_pause" -> ~ok
    \* pause and unpause strictly alternate
    [] m = "C16_gate_alt"   -> IF o.op = "pause" THEN ~g.paused ELSE g.paused
    \* ... and works again, unchanged, when not paused: the counter continues where it was
    [] m = "C16_gate_works" -> ok /\ ev.ret = g.counter + 1
    [] m = "C16_gate_state" -> ev.obs.paused = GNext(g, ev).paused
    \* never without an upgrade, and not a second time after one
    [] m = "C16_migrate_needs_upgrade" -> g.pending
    \* exactly once after each upgrade: the first authorized attempt completes it
    [] m = "C16_migrate_once"  -> ok
    [] m = "C16_migrate_state" -> ev.obs.pending = GNext(g, ev).pending

Holds(m, g, ev) == Ante(m, g, ev) => Cons(m, g, ev)
Key(m, g, ev) == "other"
Failing(g, ev) == {m \in Monitors : ~Holds(m, g, ev)}
=============================================================================
