------------------------------ MODULE Fungible ------------------------------
(***************************************************************************)
(* Property-level specification of the fungible token flavours             *)
(* (packages/tokens/src/fungible: Base, burnable, allowlist, blocklist,    *)
(* capped; contract-utils pausable through the fungible-pausable example). *)
(* Source of truth for C01 (conservation, events), C02 (authorization and  *)
(* allowances) and the fungible part of C16 (pause, lists, cap).           *)
(*                                                                         *)
(* Event record (what the harness logs and what MC_Fungible constructs):   *)
(*  ev.op  = [op, from, to, sp, amt, until, auth, k]                       *)
(*     op \in {"mint","transfer","transfer_from","approve","burn",         *)
(*             "burn_from","advance","pause","unpause","list","unlist"}    *)
(*     approve: from = owner, sp = spender;  list/unlist: to = user,       *)
(*     from = operator;  pause/unpause: from = caller;  advance: k ledgers *)
(*  ev.now = ledger sequence at the call (after advancing)                 *)
(*  ev.res \in {"ok","fail"}                                               *)
(*  ev.obs = [bal : Acct -> Int, supply, al : Acct -> (Acct -> Int),       *)
(*            paused, listed : Acct -> BOOLEAN]   (public getters, after)  *)
(*  ev.evs = sequence of [k, f, t, x] : token events emitted by the call   *)
(* Amounts are in model units (the harness scales them, see DESIGN 2.3).   *)
(***************************************************************************)
EXTENDS Integers, Sequences, FiniteSets

None == "none"

RECURSIVE SumOver(_, _)
SumOver(f, S) == IF S = {} THEN 0 ELSE LET x == CHOOSE y \in S : TRUE IN f[x] + SumOver(f, S \ {x})

(* ghost state -------------------------------------------------------------*)
\* flavour : "base" | "allowlist" | "blocklist" | "pausable" | "capped"
\* al[o][s] = [amt, until] : what was last approved minus what was spent, and its expiry
GInit(flavour, obs, cap, owner) ==
  [flavour |-> flavour, accts |-> DOMAIN obs.bal,
   bal |-> obs.bal, supply |-> obs.supply,
   al |-> [o \in DOMAIN obs.bal |-> [s \in DOMAIN obs.bal |-> [amt |-> 0, until |-> 0]]],
   paused |-> obs.paused, listed |-> obs.listed, cap |-> cap, owner |-> owner,
   everPaused |-> FALSE]

AllowVal(g, o, s, now) == IF now > g.al[o][s].until THEN 0 ELSE g.al[o][s].amt

Moves == {"transfer", "transfer_from"}
Burns == {"burn", "burn_from"}
Spends == {"transfer_from", "burn_from"}

\* balances / supply the property prescribes after a successful call
ExpBal(g, o) ==
  CASE o.op \in Moves -> [a \in g.accts |->
                            g.bal[a] - (IF a = o.from THEN o.amt ELSE 0) + (IF a = o.to THEN o.amt ELSE 0)]
    [] o.op = "mint"  -> [g.bal EXCEPT ![o.to] = @ + o.amt]
    [] o.op \in Burns -> [g.bal EXCEPT ![o.from] = @ - o.amt]
    [] OTHER          -> g.bal

ExpSupply(g, o) ==
  CASE o.op = "mint"  -> g.supply + o.amt
    [] o.op \in Burns -> g.supply - o.amt
    [] OTHER          -> g.supply

ExpEvents(o) ==
  CASE o.op \in Moves -> << [k |-> "transfer", f |-> o.from, t |-> o.to, x |-> o.amt] >>
    [] o.op = "mint"  -> << [k |-> "mint", f |-> None, t |-> o.to, x |-> o.amt] >>
    [] o.op \in Burns -> << [k |-> "burn", f |-> o.from, t |-> None, x |-> o.amt] >>
    [] OTHER          -> << >>

TokenEvents(evs) == SelectSeq(evs, LAMBDA e : e.k \in {"transfer", "mint", "burn"})

\* the allowance matrix as it must read at ledger `now` when nothing happened
AlView(g, now) == [o \in g.accts |-> [s \in g.accts |-> AllowVal(g, o, s, now)]]

GNext(g, ev) ==
  LET o == ev.op  ok == ev.res = "ok" IN
  IF ~ok THEN g ELSE
  LET g1 == [g EXCEPT !.bal = ExpBal(g, o), !.supply = ExpSupply(g, o)] IN
  CASE o.op = "approve" -> [g1 EXCEPT !.al[o.from][o.sp] = [amt |-> o.amt, until |-> o.until]]
    [] o.op \in Spends  -> [g1 EXCEPT !.al[o.from][o.sp].amt = AllowVal(g, o.from, o.sp, ev.now) - o.amt]
    [] o.op = "pause"   -> [g1 EXCEPT !.paused = TRUE, !.everPaused = TRUE]
    [] o.op = "unpause" -> [g1 EXCEPT !.paused = FALSE]
    [] o.op = "list"    -> [g1 EXCEPT !.listed[o.to] = TRUE]
    [] o.op = "unlist"  -> [g1 EXCEPT !.listed[o.to] = FALSE]
    \* the cap in force is the one set last (a cap below the supply shuts minting until enough is burned)
    [] o.op = "set_cap" -> [g1 EXCEPT !.cap = o.amt]
    [] OTHER            -> g1

\* the ghost allowance follows the observation when that is lower than approved minus spent
\* (the property only bounds an allowance from above)
GSync(g2, ev) ==
  [g2 EXCEPT !.al = [o \in g2.accts |-> [s \in g2.accts |->
      IF ev.obs.al[o][s] < AllowVal(g2, o, s, ev.now)
      THEN [g2.al[o][s] EXCEPT !.amt = ev.obs.al[o][s]] ELSE g2.al[o][s]]]]

(* monitors -----------------------------------------------------------------*)
Monitors == {"C01_sum", "C01_nonneg", "C01_delta", "C01_fail_unchanged", "C01_events",
             "C02_debit", "C02_allow_change", "C02_allow_bound",
             "C16_pause", "C16_pause_alt", "C16_unpause_works", "C16_list", "C16_list_state",
             "C16_cap", "C16_noeffect"}

PropOf(m) == CASE m \in {"C01_sum", "C01_nonneg", "C01_delta", "C01_fail_unchanged", "C01_events"} -> "C01"
               [] m \in {"C02_debit", "C02_allow_change", "C02_allow_bound"} -> "C02"
               [] OTHER -> "C16"

\* which entry points a flavour declares pausable / which parties a listed flavour must vet
Pausable(g, o) == g.flavour = "pausable" /\ o.op \in {"transfer", "transfer_from", "burn", "burn_from", "mint"}
Vetted(o) == CASE o.op \in Moves   -> {o.from, o.to}
               [] o.op = "approve" -> {o.from}
               [] o.op \in Burns   -> {o.from}
               [] OTHER            -> {}
GateShut(g, o) ==
  \/ Pausable(g, o) /\ g.paused
  \/ g.flavour = "allowlist" /\ \E a \in Vetted(o) : ~g.listed[a]
  \/ g.flavour = "blocklist" /\ \E a \in Vetted(o) : g.listed[a]

\* unchanged allowances (an entry may at most have lapsed to zero)
AlSame(g, obs, now) == \A o \in g.accts : \A s \in g.accts :
                          obs.al[o][s] = AllowVal(g, o, s, now) \/ obs.al[o][s] = 0

Decreased(g, ev) == {a \in g.accts : ev.obs.bal[a] < g.bal[a]}

Ante(m, g, ev) ==
  LET o == ev.op  ok == ev.res = "ok" IN
  CASE m = "C01_sum"            -> TRUE
    [] m = "C01_nonneg"         -> TRUE
    [] m = "C01_delta"          -> ok
    [] m = "C01_fail_unchanged" -> ~ok
    [] m = "C01_events"         -> TRUE
    [] m = "C02_debit"          -> Decreased(g, ev) # {}
    [] m = "C02_allow_change"   -> TRUE
    [] m = "C02_allow_bound"    -> TRUE
    [] m = "C16_pause"          -> Pausable(g, o) /\ g.paused
    [] m = "C16_pause_alt"      -> g.flavour = "pausable"
    [] m = "C16_unpause_works"  -> /\ g.flavour = "pausable" /\ g.everPaused /\ ~g.paused
                                   /\ o.op = "transfer" /\ o.from # o.to /\ o.from \in o.auth
                                   /\ o.amt > 0 /\ o.amt <= g.bal[o.from]
    [] m = "C16_list"           -> g.flavour \in {"allowlist", "blocklist"} /\ ok /\ Vetted(o) # {}
    [] m = "C16_list_state"     -> g.flavour \in {"allowlist", "blocklist"}
    [] m = "C16_cap"            -> g.flavour = "capped" /\ o.op = "mint" /\ ok
    [] m = "C16_noeffect"       -> GateShut(g, o)

Cons(m, g, ev) ==
  LET o == ev.op  ok == ev.res = "ok"  obs == ev.obs  now == ev.now IN
  CASE m = "C01_sum"    -> obs.supply = SumOver(obs.bal, g.accts)
    [] m = "C01_nonneg" -> \A a \in g.accts : obs.bal[a] >= 0
    \* a transfer never changes the supply, a mint or burn changes it by exactly the amount, and
    \* exactly the named balances move
    [] m = "C01_delta"  -> obs.bal = ExpBal(g, o) /\ obs.supply = ExpSupply(g, o)
    [] m = "C01_fail_unchanged" -> /\ obs.bal = g.bal /\ obs.supply = g.supply
                                   /\ AlSame(g, obs, now)
                                   /\ obs.paused = g.paused /\ obs.listed = g.listed
    \* replaying the emitted mint/burn/transfer events reproduces the balances: one event with
    \* the exact parties and amount per successful movement, none otherwise
    [] m = "C01_events" -> TokenEvents(ev.evs) = (IF ok THEN ExpEvents(o) ELSE << >>)
    \* a balance decreases only with its holder's authorization, or through a live, sufficient
    \* allowance of an authorizing spender that then drops by exactly the amount
    [] m = "C02_debit"  ->
         \A a \in Decreased(g, ev) :
            \/ o.op \in {"transfer", "burn"} /\ a = o.from /\ o.from \in o.auth
            \* a holder acting as his own spender authorizes the debit himself
            \/ o.op \in Spends /\ a = o.from /\ o.sp = o.from /\ o.from \in o.auth
            \/ /\ o.op \in Spends /\ a = o.from /\ o.sp \in o.auth
               /\ AllowVal(g, o.from, o.sp, now) >= o.amt
               /\ obs.al[o.from][o.sp] = AllowVal(g, o.from, o.sp, now) - o.amt
    \* an allowance changes only by an approve authorized by its owner, or by a spend
    [] m = "C02_allow_change" ->
         \A ow \in g.accts : \A s \in g.accts :
            (obs.al[ow][s] # AllowVal(g, ow, s, now) /\ obs.al[ow][s] # 0) =>
              \/ ok /\ o.op = "approve" /\ o.from = ow /\ o.sp = s /\ ow \in o.auth
              \/ ok /\ o.op \in Spends /\ o.from = ow /\ o.sp = s
    \* never above approved minus spent; zero once its live_until_ledger has passed
    [] m = "C02_allow_bound" ->
         LET g2 == GNext(g, ev) IN
         \A ow \in g.accts : \A s \in g.accts :
            /\ obs.al[ow][s] <= AllowVal(g2, ow, s, now)
            /\ obs.al[ow][s] >= 0
    [] m = "C16_pause"         -> ~ok
    [] m = "C16_pause_alt"     -> /\ (o.op = "pause" /\ ok) => ~g.paused
                                  /\ (o.op = "unpause" /\ ok) => g.paused
                                  /\ obs.paused = GNext(g, ev).paused
    [] m = "C16_unpause_works" -> ok
    [] m = "C16_list"          -> IF g.flavour = "allowlist" THEN \A a \in Vetted(o) : g.listed[a]
                                  ELSE \A a \in Vetted(o) : ~g.listed[a]
    \* list changes take effect immediately and idempotently
    [] m = "C16_list_state"    -> obs.listed = GNext(g, ev).listed
    [] m = "C16_cap"           -> obs.supply <= g.cap
    [] m = "C16_noeffect"      -> /\ ~ok /\ obs.bal = g.bal /\ obs.supply = g.supply
                                  /\ AlSame(g, obs, now)

Holds(m, g, ev) == Ante(m, g, ev) => Cons(m, g, ev)
Key(m, g, ev) == "other"
Failing(g, ev) == {m \in Monitors : ~Holds(m, g, ev)}
=============================================================================
