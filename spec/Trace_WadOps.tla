---------------------------- MODULE Trace_WadOps ----------------------------
(* Trace validation for WadOps.tla (SD = 18, WB = 128): every recorded case is judged by       *)
(* definition with BigInt arithmetic; cnt also counts the case classes observed.  A witness of  *)
(* checked_pow that is not the exactly truncated product is a harness error (Assert), never a   *)
(* verdict on the code.                                                                          *)
EXTENDS WadOps, TLC, Json, IOUtils

Rec == ndJsonDeserialize(IOEnv.TRACE)

VARIABLES l, cnt
vars == <<l, cnt>>

Keys == Monitors \cup {"X03_class_" \o c : c \in ReachableClasses} \cup InfoKeys
Init == l = 1 /\ cnt = [k \in Keys |-> 0]

EvOf(raw) == [fn |-> raw.fn, a |-> raw.A, b |-> raw.B, dec |-> raw.dec, res |-> raw.res,
              q |-> raw.Q, how |-> raw.how, w |-> raw.W]

Report(raw, m) == PrintT(<<"VIOL", ToJson([run |-> raw.run, i |-> raw.i, line |-> l, mon |-> m,
                                           prop |-> PropOf(m), key |-> "other"])>>)

Next ==
  /\ l <= Len(Rec)
  /\ l' = l + 1
  /\ LET raw == Rec[l] IN
     IF raw.op.op = "reset" THEN UNCHANGED cnt
     ELSE \E ev \in {EvOf(raw)} : \E j \in {Judge(ev)} :
          /\ Assert(~j.badw, <<"harness error: bad checked_pow witness at line", l>>)
          /\ \A m \in j.fail : Report(raw, m)
          /\ cnt' = [k \in Keys |-> cnt[k] + IF k = "X03_class_" \o j.cls \/ k \in j.ante \/ k \in Info(ev)
                                               THEN 1 ELSE 0]
  /\ (l = Len(Rec) => PrintT(<<"DONE", l, ToJson(cnt')>>))

Spec == Init /\ [][Next]_vars
=============================================================================
