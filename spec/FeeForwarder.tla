---------------------------- MODULE FeeForwarder ----------------------------
(***************************************************************************)
(* Property-level specification of fee forwarding (packages/fee-abstraction *)
(* collect_fee_and_invoke / collect_fee / set_allowed_fee_token, and the    *)
(* two examples fee-forwarder-permissionless / -permissioned).  Source of   *)
(* truth for C19.                                                           *)
(*                                                                          *)
(* Universe: fee tokens t1..t3, accounts u (user), r, q (relayers), fw (the *)
(* forwarder contract itself), targets tg1, tg2.                            *)
(*                                                                          *)
(* Event  ev = [op, now, res, obs]                                          *)
(*  ev.op = [op, dt, tok, fee, max, de, user, rel, rauth, diff, tfn, tfail, *)
(*           x, tgt, oper, oauth]                                           *)
(*   forward  : fee token tok, charged fee, authorized maximum max,         *)
(*              expiration ledger now + de, target tgt.tfn with argument x  *)
(*              (tfn = "hit_auth": the target itself demands the user's     *)
(*              authorization), user, relayer rel (authorizing iff rauth);  *)
(*              diff says in which single component the user's signed       *)
(*              authorization differs from the call as submitted:           *)
(*                none | token | max | exp | target | fn | args | absent    *)
(*                | noappr (root matches, nested token approve not signed)  *)
(*                | notgt  (root matches, nested target call not signed)    *)
(*              tfail: the target is told to fail                           *)
(*   approve  : user approves the forwarder for max of tok until now + de   *)
(*              (set-up of a pre-existing allowance; always authorized)     *)
(*   allow / disallow : operator oper (authorizing iff oauth) edits the     *)
(*              allow-list entry of tok                                     *)
(*   sweep    : (beyond C19: monitors X06_..) operator oper (authorizing iff *)
(*              oauth) has the forwarder's whole balance of tok paid out to *)
(*              the account named in `rel`; ev.ret = amount reported        *)
(*  ev.obs = [bal  : token -> account -> Int,                               *)
(*            al   : token -> owner -> [amt, until]  allowance to fw,       *)
(*            tg   : target -> [n, fn, x, who]  number of calls received    *)
(*                   and the last one,                                      *)
(*            list : [cnt, at (sequence, slot i at position i+1), idx       *)
(*                    (token -> slot or -1), allowed (token -> BOOLEAN),    *)
(*                    enabled, getter_ok (the two getters did not trap)]]   *)
(***************************************************************************)
EXTENDS Integers, Sequences, FiniteSets

None == "none"
FW == "fw"
NoIdx == -1

Add(f, k, d) == [f EXCEPT ![k] = @ + d]

(* allowances: an expired or empty allowance is [0, 0] ----------------------*)
NoAl == [amt |-> 0, until |-> 0]
Nz(a) == IF a.amt = 0 THEN NoAl ELSE a
Eff(a, now) == IF a.until < now THEN NoAl ELSE Nz(a)
\* observed allowance a agrees with the expected b: equal, or lapsed to zero (the fee token is the library's Base
\* token; an allowance may be worth zero earlier than its live_until_ledger, never more than approved minus spent)
AlEq(a, b) == (a.amt = b.amt /\ (a.amt > 0 => a.until = b.until)) \/ a.amt = 0
EffAll(al, now) == [t \in DOMAIN al |-> [w \in DOMAIN al[t] |-> Eff(al[t][w], now)]]
AlMapEq(A, B) == \A t \in DOMAIN B : \A w \in DOMAIN B[t] : AlEq(A[t][w], B[t][w])

(* ghost state ---------------------------------------------------------------*)
\* flavour  : "permissionless" | "permissioned" | "lib" (thin contract over the library)
\* strategy : "Eager" | "Lazy"
\* exec/mgr : holders of the executor / manager role (permissioned flavour)
\* list     : set of fee tokens allowed and not since removed
GInit(obs, flavour, strategy, exec, mgr) ==
  [flavour |-> flavour, strategy |-> strategy, exec |-> exec, mgr |-> mgr,
   toks |-> DOMAIN obs.bal, bal |-> obs.bal, al |-> obs.al, tg |-> obs.tg, list |-> {}]

\* who receives the fee: the permissioned example collects into the contract itself
Recip(g, o) == IF g.flavour = "permissioned" THEN FW ELSE o.rel

\* sweep: everything the forwarder holds of the token goes to the named recipient
SweptBal(g, o) == LET b == g.bal[o.tok][FW] IN [g.bal EXCEPT ![o.tok] = Add(Add(@, FW, -b), o.rel, b)]

ExpBal(g, o) == [g.bal EXCEPT ![o.tok] = Add(Add(@, o.user, -o.fee), Recip(g, o), o.fee)]

\* the user's allowance to the forwarder after a successful forward, as the library documents
\* its two strategies: Eager always approves max (overwriting), Lazy approves max only if the
\* current allowance is less than max; then exactly fee is spent.
DocAl(g, o, now) ==
  LET pre  == Eff(g.al[o.tok][o.user], now)
      appr == g.strategy = "Eager" \/ pre.amt < o.max
      base == IF appr THEN [amt |-> o.max, until |-> now + o.de] ELSE pre
  IN Nz([amt |-> base.amt - o.fee, until |-> base.until])
ExpAl(g, o, now) ==
  [t \in DOMAIN g.al |-> [w \in DOMAIN g.al[t] |->
      IF t = o.tok /\ w = o.user THEN DocAl(g, o, now) ELSE Eff(g.al[t][w], now)]]

ExpTg(g, o) == [g.tg EXCEPT ![o.tgt] = [n |-> @.n + 1, fn |-> o.tfn, x |-> o.x,
                                        who |-> IF o.tfn = "hit_auth" THEN o.user ELSE None]]

ExpList(g, ev) ==
  IF ev.res = "ok" /\ ev.op.op = "allow" THEN g.list \cup {ev.op.tok}
  ELSE IF ev.res = "ok" /\ ev.op.op = "disallow" THEN g.list \ {ev.op.tok}
  ELSE g.list

\* The allowances of the ghost follow the observation once a step has been judged: the monitors allow an
\* allowance to lapse early, and the next step must be judged from what the token really holds.
GNext0(g, ev) ==
  LET o == ev.op  now == ev.now
      g1 == [g EXCEPT !.al = EffAll(g.al, now)] IN
  IF ev.res # "ok" THEN g1 ELSE
  CASE o.op = "forward" -> [g1 EXCEPT !.bal = ExpBal(g, o), !.al = ExpAl(g, o, now), !.tg = ExpTg(g, o)]
    [] o.op = "approve" -> [g1 EXCEPT !.al[o.tok][o.user] = Nz([amt |-> o.max, until |-> now + o.de])]
    [] o.op = "sweep" -> [g1 EXCEPT !.bal = SweptBal(g, o)]
    [] o.op \in {"allow", "disallow"} -> [g1 EXCEPT !.list = ExpList(g, ev)]
    [] OTHER -> g1
GNext(g, ev) ==
  LET n == GNext0(g, ev) IN
  [n EXCEPT !.al = [t \in DOMAIN n.al |-> [w \in DOMAIN n.al[t] |-> Nz(ev.obs.al[t][w])]]]

(* the user's signed authorization covers exactly the submitted (token, max, expiration,
   target, fn, args) ----------------------------------------------------------*)
UserAuthorized(o) == o.diff \in {"none", "noappr", "notgt"}

Accepted(L, t) == L = {} \/ t \in L

\* the enumeration entries describe exactly the set L: count, gap-free slots, index consistency
ListEnumOk(L, ls, toks) ==
  /\ ls.cnt = Cardinality(L)
  /\ ls.cnt <= Len(ls.at)
  /\ \A i \in 1..Len(ls.at) : (i <= ls.cnt) <=> (ls.at[i] # None)
  /\ {ls.at[i] : i \in 1..ls.cnt} = L
  /\ \A t \in toks : IF t \in L THEN /\ ls.idx[t] >= 0 /\ ls.idx[t] < ls.cnt
                                     /\ ls.at[ls.idx[t] + 1] = t
                     ELSE ls.idx[t] = NoIdx

(* monitors -------------------------------------------------------------------*)
\* Beyond the listed properties (X06): fees collected by the forwarder leave it only through a sweep - by an authorized
\* manager where managers exist, in full, to the named recipient, reported exactly; a refused sweep moves nothing; and an
\* authorized manager can always sweep a positive balance (fees do not get stuck).
XMonitors == {"X06_sweep_gate", "X06_sweep_effect", "X06_sweep_fail", "X06_sweep_works"}
Monitors == {"C19_auth", "C19_charge", "C19_target", "C19_atomic", "C19_allowance",
             "C19_allowlist", "C19_allowed_getter", "C19_list_enum", "C19_list_edit"} \cup XMonitors
PropOf(m) == IF m \in XMonitors THEN "X06" ELSE "C19"

Ante(m, g, ev) ==
  LET o == ev.op  ok == ev.res = "ok"  fwd == ev.op.op = "forward" IN
  CASE m = "C19_auth"           -> fwd /\ ok
    [] m = "C19_charge"         -> fwd /\ ok
    [] m = "C19_target"         -> fwd
    [] m = "C19_atomic"         -> fwd /\ ~ok
    [] m = "C19_allowance"      -> fwd /\ ok
    [] m = "C19_allowlist"      -> fwd /\ ok
    [] m = "C19_allowed_getter" -> TRUE
    [] m = "C19_list_enum"      -> TRUE
    [] m = "C19_list_edit"      -> o.op \in {"allow", "disallow"} /\ ok
    [] m = "X06_sweep_gate"     -> o.op = "sweep" /\ ok
    [] m = "X06_sweep_effect"   -> o.op = "sweep" /\ ok
    [] m = "X06_sweep_fail"     -> o.op = "sweep" /\ ~ok
    [] m = "X06_sweep_works"    -> /\ o.op = "sweep" /\ g.flavour \in {"permissioned", "lib"} /\ g.bal[o.tok][FW] > 0
                                   /\ (g.flavour = "permissioned" => (o.oper \in g.mgr /\ o.oauth))

Cons(m, g, ev) ==
  LET o == ev.op  ok == ev.res = "ok"  obs == ev.obs  now == ev.now
      L == ExpList(g, ev) IN
  \* the user signed exactly this call; the permissioned forwarder also wants an authorizing executor
  CASE m = "C19_auth" ->
         /\ UserAuthorized(o)
         /\ g.flavour = "permissioned" => (o.rel \in g.exec /\ o.rauth)
    \* positive fee within the authorized maximum, authorization not expired, and exactly the fee
    \* moves from the user to the fee recipient in the fee token - no other balance changes
    [] m = "C19_charge" ->
         /\ o.fee > 0 /\ o.fee <= o.max
         /\ o.de >= 0
         /\ obs.bal = ExpBal(g, o)
    \* success: the target received exactly this one call; failure: none
    [] m = "C19_target" -> obs.tg = (IF ok THEN ExpTg(g, o) ELSE g.tg)
    \* a failed forward leaves no balance, allowance or target effect
    [] m = "C19_atomic" ->
         /\ obs.bal = g.bal
         /\ AlMapEq(obs.al, EffAll(g.al, now))
         /\ obs.tg = g.tg
    \* what stays usable by the forwarder afterwards is what the strategy documents
    \* (the forwarder may have found the user's earlier allowance already lapsed)
    [] m = "C19_allowance" -> \/ AlMapEq(obs.al, ExpAl(g, o, now))
                              \/ AlMapEq(obs.al, ExpAl([g EXCEPT !.al[o.tok][o.user] = NoAl], o, now))
    [] m = "C19_allowlist" -> Accepted(g.list, o.tok)
    [] m = "C19_allowed_getter" ->
         /\ obs.list.getter_ok                      \* the getters answer (do not trap)
         /\ \A t \in g.toks : obs.list.allowed[t] = Accepted(L, t)
         /\ obs.list.enabled = (L # {})
    [] m = "C19_list_enum" -> ListEnumOk(L, obs.list, g.toks)
    \* duplicates and removals of absent tokens are refused; edits need the manager's authorization
    [] m = "X06_sweep_gate"   -> g.flavour = "permissioned" => (o.oper \in g.mgr /\ o.oauth)
    [] m = "X06_sweep_effect" -> /\ g.bal[o.tok][FW] > 0 /\ ev.ret = g.bal[o.tok][FW]
                                 /\ obs.bal = SweptBal(g, o) /\ obs.tg = g.tg
    [] m = "X06_sweep_fail"   -> obs.bal = g.bal /\ obs.tg = g.tg
    [] m = "X06_sweep_works"  -> ok
    [] m = "C19_list_edit" ->
         /\ o.op = "allow" => o.tok \notin g.list
         /\ o.op = "disallow" => o.tok \in g.list
         /\ g.flavour = "permissioned" => (o.oper \in g.mgr /\ o.oauth)

Holds(m, g, ev) == Ante(m, g, ev) => Cons(m, g, ev)

Key(m, g, ev) ==
  CASE m = "C19_charge" /\ ~(ev.op.fee > 0 /\ ev.op.fee <= ev.op.max) -> "fee_bounds"
    [] m = "C19_charge" /\ ev.op.de < 0 -> "expired"
    [] OTHER -> "other"

Failing(g, ev) == {m \in Monitors : ~Holds(m, g, ev)}
=============================================================================
