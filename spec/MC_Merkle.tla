----------------------------- MODULE MC_Merkle -----------------------------
(***************************************************************************)
(* Implementation-shaped model of crypto::merkle::Verifier (both folds, in *)
(* the code's order of checks), merkle_distributor::storage (root in       *)
(* instance storage, one persistent Claimed(index) flag per index) and the *)
(* fungible-merkle-airdrop example (claim = verify_and_set_claimed, then   *)
(* a token transfer out of the contract's pool), checked by TLC against    *)
(* the monitors of Merkle.tla and used as generator of replayed behaviours.*)
(***************************************************************************)
EXTENDS Merkle, TLC, Json

CONSTANTS Flavour,     \* "lib" (thin contracts; replayed with SHA-256 and Keccak-256) | "airdrop"
          Mode,        \* "s" sorted-pair (verify) | "p" positional (verify_with_index)
          Phase,       \* "verify": every single corruption of every leaf's proof, one call deep
                       \* "dist":   histories of set_root / claim
          Ns,          \* numbers of leaves
          Styles,      \* tree constructions
          Salts,       \* leaf families (dist phase; verify uses family 0)
          U,           \* indices 0..U-1 are observed
          Fund,        \* airdrop: pool after deployment
          Depth, EmitEvery,
          BUG          \* "" or a seeded model bug (non-vacuity configurations)

VARIABLES root,        \* instance entry Root: a hash term, or NoRoot
          claimedMap,  \* persistent entries Claimed(i)
          bal, pool,   \* token balances of the receivers / of the distributing contract
          g, viol, hist
vars == <<root, claimedMap, bal, pool, g, viol, hist>>
View == <<root, claimedMap, bal, pool, g, viol, Len(hist)>>

NoRoot == <<"none", 0, 0>>
Idx == 0..(U - 1)

(* Verifier -------------------------------------------------------------------*)
\* result: "true" | "false" | "fail" (panic)
RECURSIVE EarlyS(_, _, _)
EarlyS(x, pr, r) == IF x = r THEN TRUE ELSE IF Len(pr) = 0 THEN FALSE
                    ELSE EarlyS(H("s", x, Head(pr)), Tail(pr), r)
RECURSIVE FoldLeft(_, _)
FoldLeft(x, pr) == IF Len(pr) = 0 THEN x ELSE FoldLeft(H("p", x, Head(pr)), Tail(pr))

ImplVerify(pr, r, leaf, idx) ==
  IF Mode = "s"
  THEN IF BUG = "early_exit"                                 \* compares after every step
       THEN (IF EarlyS(leaf, pr, r) THEN "true" ELSE "false")
       ELSE (IF FoldS(leaf, pr) = r THEN "true" ELSE "false")
  ELSE IF Len(pr) >= 32 THEN "fail"
       ELSE IF idx >= Pow2(Len(pr)) THEN "fail"
       ELSE IF BUG = "index_ignored"                         \* always hashes (leaf, sibling)
            THEN (IF FoldLeft(leaf, pr) = r THEN "true" ELSE "false")
            ELSE (IF FoldP(leaf, pr, idx) = r THEN "true" ELSE "false")

(* MerkleDistributor::verify_and_set_claimed / verify_with_index_and_set_claimed, and the
   example's claim: result <<res, mark, pay>> *)
ImplClaim(o) ==
  LET i == IdxOf(o) IN
  IF root = NoRoot THEN <<"fail", FALSE, 0>>                                  \* RootNotSet
  ELSE IF BUG # "no_claimed_check" /\ i \in Idx /\ claimedMap[i] THEN <<"fail", FALSE, 0>>   \* IndexAlreadyClaimed
  ELSE IF ImplVerify(ProofOf(Mode, o), root, LeafOf(Mode, o), i) # "true"
       THEN <<"fail", BUG = "mark_before_verify", 0>>                         \* InvalidProof
  ELSE IF Flavour = "airdrop" /\ pool < ClaimAmt(o) THEN <<"fail", FALSE, 0>> \* token transfer fails
  ELSE <<"ok", TRUE, IF Flavour = "airdrop" THEN ClaimAmt(o) ELSE 0>>

(* the calls tried ------------------------------------------------------------------*)
Op(op, t, pos, corr, i, j) ==
  [op |-> op, n |-> t.n, style |-> t.style, salt |-> t.salt, pos |-> pos, corr |-> corr, i |-> i, j |-> j]

Trees(salts) == {[n |-> n, style |-> st, salt |-> sa] : n \in Ns, st \in Styles, sa \in salts}

Positions(salts) == {tp \in Trees(salts) \X (0..5) : tp[2] < tp[1].n}

VerifyOpsFor(t, p) ==
  LET len == Len(Proof(Mode, t, p)) IN
    {Op("verify", t, p, "none", 0, 0), Op("verify", t, p, "leaf", 0, 0)}
    \cup {Op("verify", t, p, "alter", i, 0) : i \in 1..len}
    \cup {Op("verify", t, p, "swap", ij[1], ij[2]) : ij \in {x \in (1..len) \X (1..len) : x[1] < x[2]}}
    \cup {Op("verify", t, p, "drop", i, 0) : i \in 1..len}
    \cup {Op("verify", t, p, "extend", i, j) : i \in 1..(len + 1), j \in 0..len}
    \cup (IF Mode = "p" THEN {Op("verify", t, p, "index", 0, j) : j \in (0..Pow2(len)) \ {p}} ELSE {})
    \cup {Op("verify", t, p, "root", 0, j) : j \in 0..2}
    \cup {Op("verify", t, p, "other", 0, j) : j \in (0..(t.n - 1)) \ {p}}
    \cup {Op("verify", t, p, "interior", i, 0) : i \in 1..len}

VerifyOps == UNION {VerifyOpsFor(tp[1], tp[2]) : tp \in Positions({0})}

ClaimOpsFor(t, p) ==
  LET len == Len(Proof(Mode, t, p)) IN
    {Op("claim", t, p, "none", 0, 0), Op("claim", t, p, "leaf", 0, 0)}
    \cup {Op("claim", t, p, "index", 0, j) : j \in ((0..t.n) \cap Idx) \ {p}}
    \cup {Op("claim", t, p, "other", 0, j) : j \in (0..(t.n - 1)) \ {p}}
    \cup (IF len >= 1 THEN {Op("claim", t, p, "alter", 1, 0), Op("claim", t, p, "drop", len, 0)} ELSE {})
    \cup {Op("claim", t, p, "extend", len + 1, 0)}
    \cup (IF len >= 2 THEN {Op("claim", t, p, "swap", 1, 2)} ELSE {})

DistOps ==
  (IF Flavour = "airdrop" /\ root # NoRoot THEN {}
   ELSE {Op("set_root", t, 0, "none", 0, 0) : t \in Trees(Salts)})
  \cup UNION {ClaimOpsFor(tp[1], tp[2]) : tp \in Positions(Salts)}
  \* time passes (more than the 30-day lifetime the claimed flags are extended to): "forever"
  \cup {Op("advance", NoTree, 0, "none", 0, 600000)}

Ops == IF Phase = "verify" THEN VerifyOps ELSE DistOps

(* transitions ----------------------------------------------------------------------*)
Init ==
  /\ root = NoRoot /\ claimedMap = [i \in Idx |-> FALSE]
  /\ bal = [k \in 1..U |-> 0] /\ pool = 0
  /\ g = GInit(IF Flavour = "airdrop" THEN "airdrop" ELSE "sha", Mode, [bal |-> bal, pool |-> pool])
  /\ viol = {} /\ hist = <<>>

Step(o) ==
  LET v  == IF o.op = "verify"
            THEN ImplVerify(ProofOf(Mode, o), RootOfV(Mode, o), LeafOf(Mode, o), IdxOf(o)) ELSE "na"
      c  == IF o.op = "claim" THEN ImplClaim(o) ELSE <<"ok", FALSE, 0>>
      i  == IdxOf(o)
      ok == CASE o.op = "verify" -> v # "fail"
              [] o.op = "claim"  -> c[1] = "ok"
              [] OTHER           -> TRUE
  IN /\ root' = IF o.op = "set_root" THEN Root(Mode, TreeOf(o)) ELSE root
     /\ claimedMap' = IF o.op = "claim" /\ c[2] /\ i \in Idx THEN [claimedMap EXCEPT ![i] = TRUE] ELSE claimedMap
     /\ bal' = IF o.op = "claim" /\ c[3] > 0 THEN [bal EXCEPT ![o.pos + 1] = @ + c[3]] ELSE bal
     /\ pool' = CASE o.op = "set_root" /\ Flavour = "airdrop" -> Fund
                  [] o.op = "claim" -> pool - c[3]
                  [] OTHER -> pool
     /\ LET ev == [op |-> o, res |-> IF ok THEN "ok" ELSE "fail",
                   ret |-> IF o.op = "verify" /\ ok THEN v ELSE "na",
                   obs |-> [claimed |-> {k \in Idx : claimedMap'[k]}, bal |-> bal', pool |-> pool']]
        IN /\ g' = GNext(g, ev)
           /\ viol' = viol \cup {<<m, Key(m, g, ev)>> : m \in Failing(g, ev)}
           /\ hist' = Append(hist, o @@ [exp |-> ev.res, expret |-> ev.ret])

Next == \E o \in Ops : Step(o)

Spec == Init /\ [][Next]_vars

Bound == Len(hist) <= Depth

EmitReplay == (EmitEvery > 0 /\ (EmitEvery = 1 \/ RandomElement(1..EmitEvery) = 1)) => PrintT(<<"REPLAY", ToJson(hist')>>)

NoViolation == viol = {}

\* the implementation-shaped state is the ghost state
Refines == /\ {k \in Idx : claimedMap[k]} = g.claimed
           /\ (root = NoRoot) = (g.root = NoTree)
           /\ (g.root # NoTree => root = Root(Mode, g.root))
           /\ bal = g.bal /\ pool = g.pool
=============================================================================
