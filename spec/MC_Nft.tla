------------------------------- MODULE MC_Nft -------------------------------
(***************************************************************************)
(* Implementation-shaped model of packages/tokens/src/non_fungible:        *)
(*   base        storage.rs  (Owner(id), Balance(a), TokenIdCounter)       *)
(*   enumerable  extensions/enumerable/storage.rs  (OwnerTokens,           *)
(*               OwnerTokensIndex, GlobalTokens, GlobalTokensIndex,        *)
(*               TotalSupply with swap-and-pop)                            *)
(*   consecutive extensions/consecutive/storage.rs (sparse Owner markers,  *)
(*               OwnershipBucket bitmaps with SCALED constants ITEMS x     *)
(*               BITS, BurnedToken, forward-scan owner_of)                 *)
(* plus approvals as Soroban temporary entries.  The whole storage is one  *)
(* record `s`; every entry point is a function s -> s' (field err = the    *)
(* invocation panicked and is rolled back) transcribing the code's checks  *)
(* in the code's order.  Checked exhaustively by TLC against the monitors  *)
(* of Nft.tla; generator of the behaviours replayed on the real contracts. *)
(***************************************************************************)
EXTENDS Nft, Json

CONSTANTS FLAVOUR,       \* "base" | "enumerable" | "consecutive"
          Acct,          \* model accounts
          OpSet,         \* entry points exercised by this configuration
          AuthMode,      \* "self": the principal authorizes; "all": either the principal alone or everybody else
          MaxId,         \* sequential ids 0..MaxId may be issued; MaxId+1 is only queried
          XIds,          \* explicit ids (disjoint from the sequential range, each minted at most once)
          NS,            \* batch sizes
          ITEMS, BITS,   \* scaled bucket geometry: ITEMS items of BITS bits per bucket
          TIds,          \* token ids named by transfer / burn / approve calls
          RcSet,         \* recipients of mints and transfers
          ToSet,         \* approved accounts / operators
          FromSet,       \* `from` of transfer_from / burn_from
          PreMode,       \* pre-minted tokens: "none" | "two" | "three" (see Pre / PreN below)
          DUs,           \* approval lifetimes: live_until - now  (plus the revoking 0)
          PastDU,        \* TRUE: also live_until = now - 1 (TLC's cfg parser has no negative set elements)
          DTs,           \* ledgers advanced before a call
          MinTempTtl, MaxTtl, Now0, Depth,
          BUG,           \* "none" | "no_prev_marker" | "swap_index" | "keep_approval" (vacuity guard)
          Emit,          \* TRUE: print REPLAY lines
          EmitMod        \* 1: one line per generated transition; k: a deterministic 1/k share of them

VARIABLES s, now, g, viol, hist

vars == <<s, now, g, viol, hist>>
View == <<s, now, g, viol, Len(hist)>>

\* pre-minted tokens: owner and batch size (the size is ignored unless consecutive)
\* "three": the approved account / operator b holds exactly one token itself, the owner a two
Pre    == IF PreMode = "two" THEN <<"a", "b">> ELSE IF PreMode = "three" THEN <<"a", "a", "b">> ELSE <<>>
PreN   == IF PreMode = "two" THEN <<2, 1>> ELSE IF PreMode = "three" THEN <<1, 1, 1>> ELSE <<>>
IB     == ITEMS * BITS                       \* ids per bucket
Ids    == (0..(MaxId + 1)) \cup XIds         \* every id the model ever names
NIdx   == Cardinality(Ids)
Idx    == 0..(NIdx - 1)
NB     == ((MaxId + 1) \div IB) + 1
Min(S) == CHOOSE x \in S : \A y \in S : x <= y

NoAppr == [who |-> NoOne, until |-> 0, lu |-> 0]
NoOper == [on |-> FALSE, until |-> 0, lu |-> 0]

S0 == [own    |-> [i \in Ids |-> NoOne],          \* Owner(id): owner (base, enumerable) / marker (consecutive)
       bal    |-> [a \in Acct |-> 0],             \* Balance(a)
       ctr    |-> 0,                              \* TokenIdCounter
       appr   |-> [i \in Ids |-> NoAppr],         \* temporary Approval(id)
       oper   |-> [p \in Acct \X Acct |-> NoOper],\* temporary ApprovalForAll(owner, operator)
       supply |-> 0,                              \* TotalSupply
       otok   |-> [a \in Acct |-> [k \in Idx |-> -1]],  \* OwnerTokens(a, k)
       oidx   |-> [i \in Ids |-> -1],             \* OwnerTokensIndex(id)
       glob   |-> [k \in Idx |-> -1],             \* GlobalTokens(k)
       gidx   |-> [i \in Ids |-> -1],             \* GlobalTokensIndex(id)
       bk     |-> [b \in 0..(NB - 1) |-> <<>>],   \* OwnershipBucket(b): <<>> absent, else ITEMS sets of set bits
       burned |-> {},                             \* BurnedToken(id)
       ret    |-> -1, err |-> FALSE]

Fail(st) == [st EXCEPT !.err = TRUE]

(* Soroban temporary storage ------------------------------------------------*)
LiveA(p, t) == p.who # NoOne /\ p.lu >= t
LiveO(p, t) == p.on /\ p.lu >= t
\* set keeps the lifetime of a live entry; extend_ttl(live_for, live_for) never shortens
NewLu(wasLive, lu, until, t) ==
  LET base == IF wasLive THEN lu ELSE t + MinTempTtl - 1
      d    == until - t
  IN IF t + d > base /\ base - t <= d THEN t + d ELSE base

GetApproved(st, id, t) ==
  LET p == st.appr[id] IN IF LiveA(p, t) /\ ~(p.until < t) THEN p.who ELSE NoOne
IsOperator(st, o, p, t) ==
  LET x == st.oper[<<o, p>>] IN LiveO(x, t) /\ x.until >= t

(* consecutive: bitmaps and the forward scan, as in consecutive/storage.rs ----*)
FindInItem(item, from) ==
  LET c == {x \in item : x >= from} IN IF c = {} THEN -1 ELSE Min(c)

RECURSIVE ScanItems(_, _, _, _)
ScanItems(b, i, item0, rel) ==            \* items are 0-based in the code, 1-based here
  IF i >= Len(b) THEN -1
  ELSE LET r == FindInItem(b[i + 1], IF i = item0 THEN rel ELSE 0) IN
       IF r # -1 THEN i * BITS + r ELSE ScanItems(b, i + 1, item0, rel)

FindInBucket(b, start) ==
  IF start >= Len(b) * BITS THEN -1 ELSE ScanItems(b, start \div BITS, start \div BITS, start % BITS)

RECURSIVE ScanBuckets(_, _, _, _, _)
ScanBuckets(st, i, lastb, b0, rel) ==
  IF i > lastb THEN -1
  ELSE IF st.bk[i] = <<>> THEN ScanBuckets(st, i + 1, lastb, b0, rel)
  ELSE LET r == FindInBucket(st.bk[i], IF i = b0 THEN rel ELSE 0) IN
       IF r # -1 THEN i * IB + r ELSE ScanBuckets(st, i + 1, lastb, b0, rel)

OwnerOfC(st, id) ==
  IF st.ctr = 0 THEN NoOne ELSE
  LET last == st.ctr - 1 IN
  IF id \in st.burned \/ id > last THEN NoOne ELSE
  LET c == ScanBuckets(st, id \div IB, last \div IB, id \div IB, id % IB) IN
  IF c = -1 THEN NoOne ELSE st.own[c]       \* only the FIRST set bit is consulted

OwnerOfImpl(st, id) == IF FLAVOUR = "consecutive" THEN OwnerOfC(st, id) ELSE st.own[id]

SetBit(st, id) ==
  IF id >= st.ctr THEN Fail(st) ELSE
  LET bi == id \div IB  rel == id % IB
      b  == IF st.bk[bi] = <<>> THEN [k \in 1..ITEMS |-> {}] ELSE st.bk[bi]
  IN [st EXCEPT !.bk[bi] = [b EXCEPT ![(rel \div BITS) + 1] = @ \cup {rel % BITS}]]

SetOwnerForPrevious(st, to, id) ==
  IF id = 0 \/ id >= st.ctr THEN st ELSE
  LET prev == id - 1 IN
  IF st.own[prev] # NoOne THEN st
  ELSE IF prev \in st.burned THEN st
  ELSE SetBit([st EXCEPT !.own[prev] = to], prev)

(* update primitives ---------------------------------------------------------*)
\* Base::update / Consecutive::update; from or to = NoOne stands for None
Update(st, from, to, id) ==
  LET s1 == IF from = NoOne THEN st
            ELSE IF OwnerOfImpl(st, id) = NoOne THEN Fail(st)             \* NonExistentToken
            ELSE IF OwnerOfImpl(st, id) # from THEN Fail(st)              \* IncorrectOwner
            ELSE IF st.bal[from] = 0 THEN Fail(st)                        \* MathOverflow
            ELSE LET a == [st EXCEPT !.bal[from] = @ - 1,
                                     !.appr[id] = IF BUG = "keep_approval" THEN @ ELSE NoAppr]
                 IN IF FLAVOUR = "consecutive" /\ ~(BUG = "no_prev_marker" /\ to = NoOne)
                    THEN SetOwnerForPrevious(a, from, id) ELSE a
  IN IF s1.err THEN s1
     ELSE IF to # NoOne
          THEN LET b == [s1 EXCEPT !.bal[to] = @ + 1, !.own[id] = to]
               IN IF FLAVOUR = "consecutive" THEN SetBit(b, id) ELSE b
          ELSE IF FLAVOUR = "consecutive"
               THEN [s1 EXCEPT !.own[id] = NoOne, !.burned = @ \cup {id}]
               ELSE [s1 EXCEPT !.own[id] = NoOne]

CheckSpender(st, sp, owner, id, t) ==
  sp = owner \/ GetApproved(st, id, t) = sp \/ IsOperator(st, owner, sp, t)

(* enumerable ------------------------------------------------------------------*)
AddToOwnerEnum(st, owner, id) ==
  IF st.err THEN st
  ELSE IF st.bal[owner] = 0 THEN Fail(st)
  ELSE LET k == st.bal[owner] - 1 IN [st EXCEPT !.otok[owner][k] = id, !.oidx[id] = k]

RemoveFromOwnerEnum(st, owner, id) ==
  IF st.err THEN st
  ELSE IF st.oidx[id] = -1 THEN Fail(st)
  ELSE LET rem == st.oidx[id]  last == st.bal[owner] IN
       IF rem # last
       THEN IF st.otok[owner][last] = -1 THEN Fail(st)
            ELSE LET lt == st.otok[owner][last]
                     a  == [st EXCEPT !.otok[owner][rem] = lt,
                                      !.oidx[lt] = IF BUG = "swap_index" THEN @ ELSE rem]
                 IN [a EXCEPT !.otok[owner][last] = -1, !.oidx[id] = -1]
       ELSE [st EXCEPT !.otok[owner][last] = -1, !.oidx[id] = -1]

RemoveFromGlobalEnum(st, id, last) ==
  IF st.err THEN st
  ELSE IF st.gidx[id] = -1 THEN Fail(st)
  ELSE IF st.glob[last] = -1 THEN Fail(st)
  ELSE LET rem == st.gidx[id]  lt == st.glob[last]
           a == [st EXCEPT !.glob[rem] = lt, !.gidx[lt] = rem]
       IN [a EXCEPT !.glob[last] = -1, !.gidx[id] = -1]

AddToEnums(st, owner, id) ==
  LET a == AddToOwnerEnum(st, owner, id) IN
  IF a.err THEN a ELSE [a EXCEPT !.supply = @ + 1, !.glob[a.supply] = id, !.gidx[id] = a.supply]

RemoveFromEnums(st, owner, id) ==
  LET a == RemoveFromOwnerEnum(st, owner, id) IN
  IF a.err THEN a
  ELSE IF a.supply = 0 THEN Fail(a)
  ELSE RemoveFromGlobalEnum([a EXCEPT !.supply = @ - 1], id, a.supply - 1)

MoveEnums(st, from, to, id) ==
  IF st.err \/ from = to THEN st ELSE AddToOwnerEnum(RemoveFromOwnerEnum(st, from, id), to, id)

(* entry points ------------------------------------------------------------------*)
SetApproval(st, id, who, until, t) ==
  IF until = 0 THEN [st EXCEPT !.appr[id] = NoAppr]
  ELSE IF until < t THEN Fail(st)                                        \* InvalidLiveUntilLedger
  ELSE IF until - t > MaxTtl - 1 THEN Fail(st)                            \* extend_ttl beyond max
  ELSE LET p == st.appr[id] IN
       [st EXCEPT !.appr[id] = [who |-> who, until |-> until, lu |-> NewLu(LiveA(p, t), p.lu, until, t)]]

Run(st, o, t) ==
  LET auth == o.auth  E == FLAVOUR = "enumerable" IN
  CASE o.op = "mint_seq" ->
         LET id == st.ctr
             a  == Update([st EXCEPT !.ctr = @ + 1, !.ret = id], NoOne, o.to, id)
         IN IF E THEN AddToEnums(a, o.to, id) ELSE a
    [] o.op = "mint_id" ->
         LET a == Update(st, NoOne, o.to, o.id) IN IF E THEN AddToEnums(a, o.to, o.id) ELSE a
    [] o.op = "batch" ->
         IF o.n = 0 THEN Fail(st)
         ELSE LET last == st.ctr + o.n - 1
                  a == SetBit([st EXCEPT !.ctr = @ + o.n, !.bal[o.to] = @ + o.n, !.ret = last], last)
              IN IF a.err THEN a ELSE [a EXCEPT !.own[last] = o.to]
    [] o.op = "transfer" ->
         IF o.from \notin auth THEN Fail(st)
         ELSE LET a == Update(st, o.from, o.to, o.id) IN IF E THEN MoveEnums(a, o.from, o.to, o.id) ELSE a
    [] o.op = "transfer_from" ->
         IF o.sp \notin auth THEN Fail(st)
         ELSE IF ~CheckSpender(st, o.sp, o.from, o.id, t) THEN Fail(st)  \* InsufficientApproval
         ELSE LET a == Update(st, o.from, o.to, o.id) IN IF E THEN MoveEnums(a, o.from, o.to, o.id) ELSE a
    [] o.op = "burn" ->
         IF o.from \notin auth THEN Fail(st)
         ELSE LET a == Update(st, o.from, NoOne, o.id) IN
              IF E /\ ~a.err THEN RemoveFromEnums(a, o.from, o.id) ELSE a
    [] o.op = "burn_from" ->
         IF o.sp \notin auth THEN Fail(st)
         ELSE IF ~CheckSpender(st, o.sp, o.from, o.id, t) THEN Fail(st)
         ELSE LET a == Update(st, o.from, NoOne, o.id) IN
              IF E /\ ~a.err THEN RemoveFromEnums(a, o.from, o.id) ELSE a
    [] o.op = "approve" ->
         IF o.from \notin auth THEN Fail(st)
         ELSE LET owner == OwnerOfImpl(st, o.id) IN
              IF owner = NoOne THEN Fail(st)                              \* NonExistentToken
              ELSE IF o.from # owner /\ ~IsOperator(st, owner, o.from, t) THEN Fail(st)  \* InvalidApprover
              ELSE SetApproval(st, o.id, o.to, o.until, t)
    [] o.op = "approve_for_all" ->
         IF o.from \notin auth THEN Fail(st)
         ELSE IF o.until = 0 THEN [st EXCEPT !.oper[<<o.from, o.to>>] = NoOper]
         ELSE IF o.until < t THEN Fail(st)
         ELSE IF o.until - t > MaxTtl - 1 THEN Fail(st)
         ELSE LET p == st.oper[<<o.from, o.to>>] IN
              [st EXCEPT !.oper[<<o.from, o.to>>] =
                 [on |-> TRUE, until |-> o.until, lu |-> NewLu(LiveO(p, t), p.lu, o.until, t)]]

(* observation through the public getters -------------------------------------------*)
ListOf(f, n) == [k \in 1..n |-> f[k - 1]]

Obs(st, t) ==
  LET E == FLAVOUR = "enumerable" IN
  [owners   |-> {[id |-> i, o |-> OwnerOfImpl(st, i), u |-> IF OwnerOfImpl(st, i) = NoOne THEN "fail" ELSE "ok"] : i \in Ids},
   bal      |-> st.bal,
   appr     |-> {[id |-> i, who |-> GetApproved(st, i, t)] : i \in Ids},
   opall    |-> [a \in Acct |-> [b \in Acct |-> IsOperator(st, a, b, t)]],
   supply   |-> IF E THEN st.supply ELSE -1,
   glob     |-> IF E THEN ListOf(st.glob, st.supply) ELSE <<>>,
   glob_oob |-> IF E THEN (IF st.supply \in Idx /\ st.glob[st.supply] # -1 THEN "ok" ELSE "fail") ELSE "fail",
   otok     |-> [a \in Acct |-> IF E THEN ListOf(st.otok[a], st.bal[a]) ELSE <<>>],
   otok_oob |-> [a \in Acct |-> IF E /\ st.bal[a] \in Idx /\ st.otok[a][st.bal[a]] # -1 THEN "ok" ELSE "fail"]]

(* calls ------------------------------------------------------------------------------*)
Auths(p) == IF AuthMode = "self" THEN {{p}} ELSE {{p}, Acct \ {p}}
Untils(t) == {0} \cup {t + d : d \in DUs} \cup (IF PastDU THEN {t - 1} ELSE {})

Op(k, sp, from, to, id, n, until, auth) ==
  [op |-> k, sp |-> sp, from |-> from, to |-> to, id |-> id, n |-> n, until |-> until, auth |-> auth]

FreshX(st) == {x \in XIds : x \notin DOMAIN g.own}

\* <<from, id>> pairs of transfer / burn: in "self" mode only the owner tries (one arbitrary account
\* for an id without owner); the rejection side is the business of the "all" configurations
Froms(st) ==
  IF AuthMode # "self" THEN Acct \X TIds
  ELSE {<<IF OwnerOfImpl(st, i) # NoOne THEN OwnerOfImpl(st, i) ELSE CHOOSE a \in Acct : TRUE, i>> : i \in TIds}

Ops(st, t) ==
  LET W(k) == k \in OpSet IN
       {Op("mint_seq", NoOne, NoOne, to, 0, 0, 0, {}) : to \in IF W("mint_seq") /\ st.ctr <= MaxId THEN RcSet ELSE {}}
  \cup {Op("mint_id", NoOne, NoOne, to, x, 0, 0, {}) : to \in IF W("mint_id") THEN RcSet ELSE {}, x \in FreshX(st)}
  \cup {Op("batch", NoOne, NoOne, to, 0, n, 0, {}) :
          to \in IF W("batch") THEN RcSet ELSE {}, n \in {m \in NS : st.ctr + m <= MaxId + 1}}
  \cup UNION {{Op("transfer", NoOne, fi[1], to, fi[2], 0, 0, au) : au \in Auths(fi[1]), to \in RcSet} :
          fi \in IF W("transfer") THEN Froms(st) ELSE {}}
  \cup UNION {{Op("transfer_from", sp, f, to, i, 0, 0, au) : au \in Auths(sp)} :
          sp \in IF W("transfer_from") THEN Acct ELSE {}, f \in FromSet, to \in RcSet, i \in TIds}
  \cup UNION {{Op("burn", NoOne, fi[1], NoOne, fi[2], 0, 0, au) : au \in Auths(fi[1])} :
          fi \in IF W("burn") THEN Froms(st) ELSE {}}
  \cup UNION {{Op("burn_from", sp, f, NoOne, i, 0, 0, au) : au \in Auths(sp)} :
          sp \in IF W("burn_from") THEN Acct ELSE {}, f \in FromSet, i \in TIds}
  \cup UNION {{Op("approve", NoOne, f, to, i, 0, u, au) : au \in Auths(f)} :
          f \in IF W("approve") THEN Acct ELSE {}, to \in ToSet, i \in TIds, u \in Untils(t)}
  \cup UNION {{Op("approve_for_all", NoOne, ft[1], ft[2], 0, 0, u, au) : au \in Auths(ft[1])} :
          ft \in IF W("approve_for_all") THEN {x \in Acct \X ToSet : x[1] # x[2]} ELSE {}, u \in Untils(t)}

\* one call: the event the harness will log, the new storage, ghost, verdicts and history
Call(st, gg, o, dt, t0) ==
  LET t  == t0 + dt
      r  == Run([st EXCEPT !.ret = -1, !.err = FALSE], o, t)
      ok == ~r.err
      s2 == IF ok THEN r ELSE st
      ev == [op |-> o, now |-> t, res |-> IF ok THEN "ok" ELSE "fail",
             ret |-> IF ok THEN r.ret ELSE -1, obs |-> Obs(s2, t)]
  IN [s |-> s2, ev |-> ev, g |-> GNext(gg, ev),
      bad |-> {<<m, Key(m, gg, ev)>> : m \in Failing(gg, ev)},
      h |-> [op |-> o.op, sp |-> o.sp, from |-> o.from, to |-> o.to, id |-> o.id, n |-> o.n,
             until |-> o.until, auth |-> o.auth, dt |-> dt, exp |-> ev.res, fl |-> FLAVOUR]]

PreOp(i) == IF FLAVOUR = "consecutive" THEN Op("batch", NoOne, NoOne, Pre[i], 0, PreN[i], 0, {})
            ELSE Op("mint_seq", NoOne, NoOne, Pre[i], 0, 0, 0, {})

RECURSIVE PreRun(_, _)
PreRun(i, acc) ==
  IF i > Len(Pre) THEN acc
  ELSE LET c == Call(acc.s, acc.g, PreOp(i), 0, Now0)
       IN PreRun(i + 1, [s |-> c.s, g |-> c.g, viol |-> acc.viol \cup c.bad, hist |-> Append(acc.hist, c.h)])

Start == PreRun(1, [s |-> S0, g |-> GInit(FLAVOUR, Obs(S0, Now0)), viol |-> {}, hist |-> <<>>])

Init == /\ s = Start.s /\ g = Start.g /\ viol = Start.viol /\ hist = Start.hist /\ now = Now0

\* (an operator argument is evaluated once by TLC; a LET in an action would be re-evaluated per use)
Apply(c, dt) ==
  /\ now' = now + dt /\ s' = c.s /\ g' = c.g
  /\ viol' = viol \cup c.bad
  /\ hist' = Append(hist, c.h)

Step(o, dt) == Apply(Call(s, g, o, dt, now), dt)

\* the depth bound is part of the enabling condition (a CONSTRAINT would let TLC generate, but
\* neither judge nor emit, one more level)
Next == Len(hist) < Depth + Len(Pre) /\ \E dt \in DTs : \E o \in Ops(s, now + dt) : Step(o, dt)

Spec == Init /\ [][Next]_vars

Bound == TRUE

\* deterministic thinning of the emitted behaviours (deep configurations print millions otherwise)
RECURSIVE Mix(_, _)
Mix(h, i) == IF i > Len(h) THEN 0
             ELSE (i * (h[i].id + h[i].n + h[i].until + h[i].dt + Cardinality(h[i].auth)
                        + (IF h[i].exp = "ok" THEN 1 ELSE 0)) + 3 * Mix(h, i + 1)) % 1009
EmitReplay == (Emit /\ (EmitMod = 1 \/ Mix(hist', 1) % EmitMod = 0)) => PrintT(<<"REPLAY", ToJson(hist')>>)

(* what TLC checks -----------------------------------------------------------------------*)
NoViolation == viol = {}

\* the implementation-shaped state agrees with the plain ownership map
Refines ==
  /\ \A i \in Ids : OwnerOfImpl(s, i) = OwnerG(g, i)
  /\ \A a \in Acct : s.bal[a] = Cardinality({i \in Ids : OwnerG(g, i) = a})
  /\ \A i \in Ids : GetApproved(s, i, now) = ApprovedG(g, i, now)
  /\ \A a \in Acct : \A b \in Acct : IsOperator(s, a, b, now) = OperG(g, a, b, now)
  /\ \A i \in Ids : LiveA(s.appr[i], now) => s.appr[i].lu >= s.appr[i].until   \* entry outlives its expiry
  /\ FLAVOUR = "enumerable" =>
       LET live == {i \in Ids : OwnerG(g, i) # NoOne} IN
       /\ s.supply = Cardinality(live)
       /\ \A i \in live : s.gidx[i] \in 0..(s.supply - 1) /\ s.glob[s.gidx[i]] = i
       /\ \A k \in Idx : (k < s.supply) = (s.glob[k] # -1)
       /\ \A k \in Idx : s.glob[k] # -1 => s.glob[k] \in live /\ s.gidx[s.glob[k]] = k
       /\ \A i \in Ids \ live : s.gidx[i] = -1 /\ s.oidx[i] = -1
       /\ \A i \in live : LET a == OwnerG(g, i) IN s.oidx[i] \in 0..(s.bal[a] - 1) /\ s.otok[a][s.oidx[i]] = i
       /\ \A a \in Acct : \A k \in Idx : (k < s.bal[a]) = (s.otok[a][k] # -1)
       /\ \A a \in Acct : \A k \in Idx : s.otok[a][k] # -1 => OwnerG(g, s.otok[a][k]) = a /\ s.oidx[s.otok[a][k]] = k
  /\ FLAVOUR = "consecutive" =>
       /\ \A i \in Ids : s.own[i] # NoOne => (i < s.ctr /\ i \notin s.burned /\ OwnerG(g, i) = s.own[i])
       /\ s.burned = {i \in Ids : i \in DOMAIN g.own /\ g.own[i] = NoOne}
=============================================================================
