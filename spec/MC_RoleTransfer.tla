-------------------------- MODULE MC_RoleTransfer --------------------------
(***************************************************************************)
(* Implementation-shaped model of packages/access role_transfer + ownable  *)
(* (access_control's admin hand-over is the same code with other keys) on  *)
(* top of the Soroban temporary-storage rules, checked exhaustively by TLC *)
(* against the monitors of RoleTransfer.tla, and used as the generator of  *)
(* the behaviours replayed on the real contracts.                          *)
(***************************************************************************)
EXTENDS RoleTransfer, TLC, Json

CONSTANTS Acct,          \* model accounts
          MinTempTtl,    \* ledger setting min_temp_entry_ttl (the property prescribes 1)
          MaxTtl,        \* ledger setting max_entry_ttl
          DUs,           \* offered lifetimes: until - now
          DTs,           \* ledgers advanced before a call
          Depth,         \* bound on the number of calls
          Now0,
          FIXED_C07,     \* TRUE: accept also compares an explicit expiry (a possible repair)
          Emit           \* TRUE: print one REPLAY line per generated transition

VARIABLES holder,        \* instance entry Owner / Admin (NoOne when removed)
          pend,          \* temporary entry PendingOwner: [val, until, lu] or None
          now, g, viol, hist

None == [val |-> NoOne, until |-> 0, lu |-> 0]
vars == <<holder, pend, now, g, viol, hist>>
View == <<holder, pend, now, g, viol, Len(hist)>>   \* the depth keeps the bounded search deterministic

(* Soroban temporary storage ----------------------------------------------*)
Live(p, t) == p.val # NoOne /\ p.lu >= t
\* `set` on a live entry keeps its lifetime; a new entry gets the minimum lifetime
TempSet(p, v, u, t) == IF Live(p, t) THEN [p EXCEPT !.val = v, !.until = u]
                       ELSE [val |-> v, until |-> u, lu |-> t + MinTempTtl - 1]
\* extend_ttl(threshold, extend_to): never shortens
Extend(p, th, ext, t) == IF t + ext > p.lu /\ p.lu - t <= th THEN [p EXCEPT !.lu = t + ext] ELSE p

(* the code, in its own order of checks ------------------------------------*)
OwnerAuth(auth) == holder # NoOne /\ holder \in auth

ImplOk(o, t) ==
  CASE o.op = "offer"    -> /\ OwnerAuth(o.auth)
                            /\ o.until <= t + MaxTtl - 1 /\ o.until >= t
    [] o.op = "cancel"   -> OwnerAuth(o.auth) /\ Live(pend, t) /\ pend.val = o.new
    [] o.op = "accept"   -> /\ Live(pend, t) /\ pend.val \in o.auth
                            /\ (FIXED_C07 => t <= pend.until)
    [] o.op = "renounce" -> OwnerAuth(o.auth) /\ ~Live(pend, t)
    [] o.op = "gated"    -> OwnerAuth(o.auth)

ImplEffect(o, t) ==
  CASE o.op = "offer"    -> /\ pend' = Extend(TempSet(pend, o.new, o.until, t), o.until - t, o.until - t, t)
                            /\ UNCHANGED holder
    [] o.op = "cancel"   -> pend' = None /\ UNCHANGED holder
    [] o.op = "accept"   -> holder' = pend.val /\ pend' = None
    [] o.op = "renounce" -> holder' = NoOne /\ UNCHANGED pend
    [] o.op = "gated"    -> UNCHANGED <<holder, pend>>

Ops(t) ==
  [op : {"offer"}, new : Acct, until : {t + d : d \in DUs}, auth : SUBSET Acct]
  \cup [op : {"cancel"}, new : Acct, until : {0}, auth : SUBSET Acct]
  \cup [op : {"accept", "renounce", "gated"}, new : {NoOne}, until : {0}, auth : SUBSET Acct]

Init == /\ holder = "a" /\ pend = None /\ now = Now0
        /\ g = GInit("a") /\ viol = {} /\ hist = <<>>

Step(o, dt) ==
  LET t  == now + dt
      ok == ImplOk(o, t)
      ev == [op |-> o, now |-> t, res |-> IF ok THEN "ok" ELSE "fail",
             obs |-> [holder |-> holder']]
  IN /\ now' = t
     /\ IF ok THEN ImplEffect(o, t) ELSE UNCHANGED <<holder, pend>>
     /\ g' = GNext(g, ev)
     /\ viol' = viol \cup {<<m, Key(m, g, ev)>> : m \in Failing(g, ev)}
     /\ hist' = Append(hist, [op |-> o.op, new |-> o.new, until |-> o.until, auth |-> o.auth,
                              dt |-> dt, exp |-> ev.res])

\* (the bound is an enabling condition: TLC does not generate a level it would only discard)
Next == Len(hist) < Depth /\ \E dt \in DTs : \E o \in Ops(now + dt) : Step(o, dt)

Spec == Init /\ [][Next]_vars

Bound == Len(hist) <= Depth

EmitReplay == Emit => PrintT(<<"REPLAY", ToJson(hist')>>)

(* what TLC checks ----------------------------------------------------------*)
\* The model of the code as it is violates C07 in exactly one way (DESIGN.md section 7, #2);
\* every other monitor holds in every reachable state.
KnownOnly == viol \subseteq {<<"C07_accept_live", "expired_offer_on_longer_lived_entry">>}
NoViolation == viol = {}

\* the implementation-shaped state agrees with the ghost state
Refines == /\ g.holder = holder
           /\ (g.live /\ g.lin >= now) => (Live(pend, now) /\ pend.val = g.to)
           /\ Live(pend, now) => g.live
=============================================================================
