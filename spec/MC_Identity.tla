---------------------------- MODULE MC_Identity ----------------------------
(***************************************************************************)
(* Implementation-shaped model of the RWA identity stack                   *)
(*   claim_topics_and_issuers (Vec-backed registry with forward and        *)
(*   reverse maps), identity_claims (claim per keccak(issuer, topic) slot  *)
(*   plus per-topic id index), claim_issuer helpers (Topics / Pairs        *)
(*   branches, revocation digests, per (identity, topic) nonce) and        *)
(*   identity_verifier::verify_identity transcribed loop by loop,          *)
(* judged by the monitors of Identity.tla and used as generator of the     *)
(* behaviours replayed on the real contracts.                              *)
(*                                                                         *)
(* The search is staged (registry ops, then claim/issuer ops, then "late"  *)
(* ops such as de-listing after signing), each stage with its own budget:  *)
(* registry calls and claim/issuer calls touch disjoint contracts, so the  *)
(* staging loses no reachable configuration within the budgets.            *)
(***************************************************************************)
EXTENDS Identity, TLC, Json

CONSTANTS Topics, Issuers,   \* universe of the registry
          Ids,               \* identities that claim ops address
          Keys, Regs,        \* signing keys; registries named in allow_key / remove_key ("A": the
                             \* token's registry, "B": another registry that trusts everybody)
          Defects,           \* corruptions used by add_claim
          Untils, TickDts,   \* expiry times of claims; time steps of "tick"
          BadTs,             \* TRUE: add_issuer / upd_issuer also get empty and duplicate lists
          P1, P2, P3,        \* op names of the three stages
          Max1, Max2, Max3,  \* budgets of the three stages
          PresetK,           \* keys every issuer allows for every topic through registry "B"
                             \* during set-up (TLC configuration files have no tuples)
          BUG,               \* "none" | "empty_topic" (pre-fix verify_identity: a required topic
                             \*  without trusted issuer is skipped)
          EmitEvery          \* 0: emit nothing; k: about one REPLAY line per k transitions

VARIABLES s,                 \* implementation-shaped state (one record, see Init)
          g, viol, hist, ph, n

vars == <<s, g, viol, hist, ph, n>>
View == <<s, g, viol, ph, n, Len(hist)>>

Accounts == {"a", "b", "c"}
Ident == [a |-> "ida", b |-> "idb", c |-> "none"]
IdsAll == {"ida", "idb"}
Lib == {"ida"}              \* identity contracts built on the library's add_claim

Range(q) == {q[j] : j \in DOMAIN q}
Without(q, x) == SelectSeq(q, LAMBDA y : y # x)
NoDup(q) == \A j, k \in DOMAIN q : j # k => q[j] # q[k]
SeqOf(S) == CHOOSE q \in [1..Cardinality(S) -> S] : Range(q) = S

PresetKeys == {<<i, k, t, "B">> : i \in Issuers, k \in PresetK, t \in Topics}
\* topic lists passed to add_issuer / upd_issuer: every order of every non-empty subset
TsSeqs == {<<t>> : t \in Topics} \cup {q \in {<<t, u>> : t \in Topics, u \in Topics} : q[1] # q[2]}
          \cup (IF BadTs THEN {<<>>} \cup {<<t, t>> : t \in Topics} ELSE {})

(* initial implementation state ---------------------------------------------*)
S0 == [topicsL  |-> <<>>,                         \* ClaimTopics : Vec<u32>
       issuersL |-> <<>>,                         \* TrustedIssuers : Vec<Address>
       itop |-> [i \in Issuers |-> <<>>],         \* IssuerClaimTopics(i) (present iff i listed)
       tiss |-> [t \in Topics |-> <<>>],          \* ClaimTopicIssuers(t) (present iff t listed)
       idx  |-> [id \in IdsAll |-> [t \in Topics |-> <<>>]],   \* ClaimsByTopic(t): slots by issuer
       cl   |-> {},                               \* Claim(id): records as in the ghost state
       tkeys |-> [i \in Issuers |-> [t \in Topics |->
                    SeqOf({k \in Keys : \E r \in Regs : <<i, k, t, r>> \in PresetKeys})]],
       pairs |-> [i \in Issuers |-> [k \in Keys |->
                    SeqOf({<<t, r>> : t \in Topics, r \in Regs} \cap
                          {<<x[3], x[4]>> : x \in {y \in PresetKeys : y[1] = i /\ y[2] = k}})]],
       rev   |-> {},                              \* RevokedClaim(digest) = true
       nonce |-> [i \in Issuers |-> [id \in IdsAll |-> [t \in Topics |-> 0]]],
       now   |-> 0]

(* claim_issuer: is_claim_valid as composed from the helpers (module doc of claim_issuer) ----*)
\* extract_signature_data (length per scheme) / is_key_allowed_for_topic / is_claim_expired /
\* build_message with the current nonce / is_claim_revoked / verify
IssuerConfirms(st, c) ==
  /\ c.def # "scheme"                             \* sig_data length of the stated scheme
  /\ c.k \in Range(st.tkeys[c.i][c.t])
  /\ ~(st.now >= c.until)
  /\ <<c.i, c.id, c.t, c.until>> \notin st.rev
  /\ c.nonce = st.nonce[c.i][c.id][c.t]           \* message built with the current nonce
  /\ Sound(c)                                     \* the signature verifies for that message

\* identity_verifier::validate_claim: field check, then the issuer
ValidateClaim(st, c) == c.def \notin SlotDefects /\ IssuerConfirms(st, c)

(* identity_verifier::verify_identity ---------------------------------------*)
RECURSIVE Walk(_, _, _, _, _)
Walk(st, id, t, L, k) ==
  LET i == L[k]  last == (k = Len(L)) IN
  IF i \in Range(st.idx[id][t])                      \* account_claim_ids.contains(&claim_id)
  THEN LET cs == {c \in st.cl : InSlot(c, id, t, i)} IN
       IF cs = {} THEN FALSE                         \* get_claim panics
       ELSE IF \E c \in cs : ValidateClaim(st, c) THEN TRUE            \* break
       ELSE IF last THEN FALSE ELSE Walk(st, id, t, L, k + 1)
  ELSE IF last THEN FALSE ELSE Walk(st, id, t, L, k + 1)

VerifyTopic(st, id, t) ==
  LET L == st.tiss[t] IN
  IF L = <<>> THEN BUG = "empty_topic"               \* fixed code: panics
  ELSE Walk(st, id, t, L, 1)

ImplVerify(st, a) == Ident[a] # None /\ \A t \in Range(st.topicsL) : VerifyTopic(st, Ident[a], t)

Obs(st) ==
  [ver |-> [a \in Accounts |-> IF ImplVerify(st, a) THEN "yes" ELSE "no"],
   val |-> [id \in IdsAll |-> [t \in Topics |-> [i \in Issuers |->
             IF i \notin Range(st.idx[id][t]) THEN "absent"
             ELSE IF \E c \in st.cl : InSlot(c, id, t, i) /\ ValidateClaim(st, c) THEN "yes" ELSE "no"]]]]

(* the entry points, in the code's order of checks: Apply returns [ok, st] ----*)
Fail(st) == [ok |-> FALSE, st |-> st]
Done(st) == [ok |-> TRUE, st |-> st]

TsValid(st, ts) == ts # <<>> /\ NoDup(ts) /\ Range(ts) \subseteq Range(st.topicsL)

\* registry "B" trusts every issuer for every topic; "A" is the registry under test
HasClaimTopic(st, reg, i, t) ==
  IF reg = "B" THEN TRUE ELSE i \in Range(st.issuersL) /\ t \in Range(st.itop[i])

Apply(s0, o) ==
  LET st == [s0 EXCEPT !.now = @ + o.dt]  t == o.t  i == o.i  id == o.id  k == o.k IN
  CASE o.op = "add_topic" ->
         IF t \in Range(st.topicsL) THEN Fail(st)
         ELSE Done([st EXCEPT !.topicsL = Append(@, t), !.tiss[t] = <<>>])
    [] o.op = "rm_topic" ->
         IF t \notin Range(st.topicsL) THEN Fail(st)
         ELSE Done([st EXCEPT !.topicsL = Without(@, t),
                              !.itop = [j \in Issuers |-> IF j \in Range(st.issuersL)
                                                         THEN Without(st.itop[j], t) ELSE st.itop[j]],
                              !.tiss[t] = <<>>])
    [] o.op = "add_issuer" ->
         IF ~TsValid(st, o.ts) \/ i \in Range(st.issuersL) THEN Fail(st)
         ELSE Done([st EXCEPT !.issuersL = Append(@, i), !.itop[i] = o.ts,
                              !.tiss = [u \in Topics |-> IF u \in Range(o.ts)
                                                        THEN Append(st.tiss[u], i) ELSE st.tiss[u]]])
    [] o.op = "rm_issuer" ->
         IF i \notin Range(st.issuersL) THEN Fail(st)
         ELSE Done([st EXCEPT !.issuersL = Without(@, i), !.itop[i] = <<>>,
                              !.tiss = [u \in Topics |-> IF u \in Range(st.itop[i])
                                                        THEN Without(st.tiss[u], i) ELSE st.tiss[u]]])
    [] o.op = "upd_issuer" ->
         IF ~TsValid(st, o.ts) \/ i \notin Range(st.issuersL) THEN Fail(st)
         ELSE LET old == Range(st.itop[i])  new == Range(o.ts) IN
              Done([st EXCEPT !.itop[i] = o.ts,
                              !.tiss = [u \in Topics |->
                                          IF u \in old \ new THEN Without(st.tiss[u], i)
                                          ELSE IF u \in new \ old THEN Append(st.tiss[u], i)
                                          ELSE st.tiss[u]]])
    [] o.op = "allow_key" ->
         IF ~HasClaimTopic(st, o.reg, i, t) THEN Fail(st)
         ELSE IF <<t, o.reg>> \in Range(st.pairs[i][k]) THEN Fail(st)          \* KeyAlreadyAllowed
         ELSE Done([st EXCEPT !.tkeys[i][t] = IF k \in Range(@) THEN @ ELSE Append(@, k),
                              !.pairs[i][k] = Append(@, <<t, o.reg>>)])
    [] o.op = "remove_key" ->
         IF <<t, o.reg>> \notin Range(st.pairs[i][k]) THEN Fail(st)            \* KeyNotFound
         ELSE LET rest == Without(st.pairs[i][k], <<t, o.reg>>) IN
              Done([st EXCEPT !.pairs[i][k] = rest,
                              !.tkeys[i][t] = IF \E p \in Range(rest) : p[1] = t THEN @ ELSE Without(@, k)])
    [] o.op = "revoke"   -> Done([st EXCEPT !.rev = @ \cup {<<i, id, t, o.until>>}])
    [] o.op = "unrevoke" -> Done([st EXCEPT !.rev = @ \ {<<i, id, t, o.until>>}])
    [] o.op = "bump"     -> Done([st EXCEPT !.nonce[i][id][t] = @ + 1])
    [] o.op = "add_claim" ->
         LET c == [id |-> id, t |-> t, i |-> i, def |-> o.def, k |-> k, until |-> o.until,
                   nonce |-> st.nonce[i][id][t] + IF o.def = "nonce" THEN 1 ELSE 0]
             isNew == ~\E d \in st.cl : InSlot(d, id, t, i)
         IN IF id \in Lib /\ ~IssuerConfirms(st, c) THEN Fail(st)   \* is_claim_valid panics
            ELSE Done([st EXCEPT !.cl = {d \in @ : ~InSlot(d, id, t, i)} \cup {c},
                                 !.idx[id][t] = IF isNew THEN Append(@, i) ELSE @])
    [] o.op = "rm_claim" ->
         IF ~\E d \in st.cl : InSlot(d, id, t, i) THEN Fail(st)                \* ClaimNotFound
         ELSE Done([st EXCEPT !.cl = {d \in @ : ~InSlot(d, id, t, i)},
                              !.idx[id][t] = Without(@, i)])
    [] OTHER -> Done(st)                                                      \* tick

(* the calls TLC explores -----------------------------------------------------*)
O(op, t, i, id, k, reg, ts, def, until, dt) ==
  [op |-> op, t |-> t, i |-> i, id |-> id, k |-> k, reg |-> reg, ts |-> ts, def |-> def,
   until |-> until, dt |-> dt]

AllOps ==
  {O(nm, t, None, None, None, None, <<>>, None, 0, 0) : nm \in {"add_topic", "rm_topic"}, t \in Topics}
  \cup {O(nm, None, i, None, None, None, ts, None, 0, 0) : nm \in {"add_issuer", "upd_issuer"}, i \in Issuers, ts \in TsSeqs}
  \cup {O("rm_issuer", None, i, None, None, None, <<>>, None, 0, 0) : i \in Issuers}
  \cup {O(nm, t, i, None, k, r, <<>>, None, 0, 0) : nm \in {"allow_key", "remove_key"}, t \in Topics, i \in Issuers, k \in Keys, r \in Regs}
  \cup {O(nm, t, i, id, None, None, <<>>, None, u, 0) : nm \in {"revoke", "unrevoke"}, t \in Topics, i \in Issuers, id \in Ids, u \in Untils}
  \cup {O("bump", t, i, id, None, None, <<>>, None, 0, 0) : t \in Topics, i \in Issuers, id \in Ids}
  \cup {O("add_claim", t, i, id, k, None, <<>>, d, u, 0) : t \in Topics, i \in Issuers, id \in Ids, k \in Keys,
                                                         d \in Defects, u \in Untils}
  \cup {O("rm_claim", t, i, id, None, None, <<>>, None, 0, 0) : t \in Topics, i \in Issuers, id \in Ids}
  \cup {O("tick", None, None, None, None, None, <<>>, None, 0, dt) : dt \in TickDts}

\* corruptions of the slot a claim is filed under exist only for identities that store anything
Sensible(o) == o.op = "add_claim" /\ o.id \in Lib => o.def \notin SlotDefects

StageOps(p) == {o \in AllOps : Sensible(o) /\ o.op \in (CASE p = 1 -> P1 [] p = 2 -> P2 [] OTHER -> P3)}
MaxOf(p) == CASE p = 1 -> Max1 [] p = 2 -> Max2 [] OTHER -> Max3

Init == /\ s = S0 /\ g = GInit(Ident, Lib, PresetKeys)
        /\ viol = {} /\ hist = <<>> /\ ph = 1 /\ n = 0

\* (bound variables instead of LET so that TLC evaluates the event once, not at every use)
Step(o, p) ==
  \E r \in {Apply(s, o)} :
  \E ev \in {[op |-> [o EXCEPT !.ts = Range(o.ts)], now |-> r.st.now,
               res |-> IF r.ok THEN "ok" ELSE "fail", obs |-> Obs(r.st)]} :
  \E h \in {GNext(g, ev)} :
     /\ s' = r.st
     /\ g' = h
     /\ viol' = viol \cup {<<m, Key(m, g, ev)>> : m \in Failing(g, ev)}
     /\ hist' = Append(hist, [op |-> o.op, t |-> o.t, i |-> o.i, id |-> o.id, k |-> o.k, reg |-> o.reg,
                              ts |-> o.ts, def |-> o.def, until |-> o.until, dt |-> o.dt, exp |-> ev.res])
     /\ ph' = p /\ n' = IF p = ph THEN n + 1 ELSE 1

Next == \E p \in ph..3 :
          /\ IF p = ph THEN n < MaxOf(p) ELSE MaxOf(p) > 0
          /\ \E o \in StageOps(p) : Step(o, p)

Spec == Init /\ [][Next]_vars

Bound == Len(hist) <= Max1 + Max2 + Max3
\* Only histories that used up all budgets are emitted: every shorter history is a prefix of one of
\* them, and the harness observes and the trace specification judges every prefix of what it replays.
EmitReplay == (EmitEvery > 0 /\ Len(hist') = Max1 + Max2 + Max3 /\ RandomElement(1..EmitEvery) = 1)
                => PrintT(<<"REPLAY", ToJson(hist')>>)

(* what TLC checks ------------------------------------------------------------*)
NoViolation == viol = {}

\* the implementation-shaped state is the ghost state in another shape
Refines ==
  /\ NoDup(s.topicsL) /\ Range(s.topicsL) = g.topics
  /\ NoDup(s.issuersL) /\ Range(s.issuersL) = g.trusted
  /\ \A t \in Topics : NoDup(s.tiss[t]) /\ Range(s.tiss[t]) = {i \in Issuers : <<i, t>> \in g.trust}
  /\ \A i \in Issuers : NoDup(s.itop[i]) /\ Range(s.itop[i]) = {t \in Topics : <<i, t>> \in g.trust}
  /\ s.cl = g.claims
  /\ \A id \in IdsAll, t \in Topics :
       NoDup(s.idx[id][t]) /\ Range(s.idx[id][t]) = {i \in Issuers : Held(g, id, t, i)}
  /\ \A i \in Issuers, t \in Topics :
       Range(s.tkeys[i][t]) = {k \in Keys : \E r \in Regs : <<i, k, t, r>> \in g.keys}
  /\ s.rev = g.revoked /\ s.now = g.now
  /\ \A i \in Issuers, id \in IdsAll, t \in Topics : s.nonce[i][id][t] = NonceOf(g, i, id, t)
=============================================================================
