------------------------------ MODULE Identity ------------------------------
(***************************************************************************)
(* Property-level specification of C15: "an RWA identity is verified only  *)
(* by valid claims from currently trusted issuers"                         *)
(* (packages/tokens/src/rwa: identity_verifier, claim_topics_and_issuers,  *)
(*  identity_claims, claim_issuer, identity_registry_storage).             *)
(*                                                                         *)
(* Ghost state `g` (plain sets, built from the HISTORY of successful       *)
(* management calls, never from the registry's getters):                   *)
(*   topics   required claim topics                                        *)
(*   trusted  trusted issuers                                              *)
(*   trust    set of <<issuer, topic>>: who is trusted for what            *)
(*   keys     set of <<issuer, key, topic, registry>>: signing keys an     *)
(*            issuer currently allows (a key is allowed for a topic while   *)
(*            at least one registry pair for that topic remains)           *)
(*   revoked  set of <<issuer, identity, topic, until>> (claim data is a   *)
(*            function of `until` in the harness)                          *)
(*   nonces   set of [i, id, t, n]: signature-invalidation counters (0     *)
(*            when absent)                                                 *)
(*   claims   set of [id, t, i, def, k, nonce, until]: the claim an        *)
(*            identity exposes in slot (topic t, issuer i); `def` is the   *)
(*            single corruption applied when it was signed/stored          *)
(*   ident    account -> identity ("none": not registered)                 *)
(*   lib      identities backed by the library's add_claim (the others are *)
(*            arbitrary identity contracts that store anything)            *)
(*   now      timestamp (model units)                                      *)
(*                                                                         *)
(* An event is [op |-> [op,t,i,id,k,reg,ts,def,until,dt], now, res,        *)
(*              obs |-> [ver |-> [account -> "yes"|"no"],                  *)
(*                       val |-> [identity -> [topic -> [issuer ->         *)
(*                                 "absent"|"yes"|"no"]]]]]                *)
(* obs.ver[a]       : verify_identity(a) succeeds after the call           *)
(* obs.val[id][t][i]: the identity exposes under topic t a claim with      *)
(*                    topic t and issuer i, and issuer i's is_claim_valid  *)
(*                    confirms it ("absent": no such claim id listed)      *)
(***************************************************************************)
EXTENDS Naturals, Sequences, FiniteSets

None == "none"

\* corruptions that make a claim invalid for good (one concrete corruption each, see harness)
SlotDefects == {"slot_topic", "slot_issuer"}

GInit(ident, lib, keys) ==
  [topics |-> {}, trusted |-> {}, trust |-> {}, keys |-> keys, revoked |-> {}, nonces |-> {},
   claims |-> {}, ident |-> ident, lib |-> lib, now |-> 0]

NonceOf(g, i, id, t) ==
  LET r == {x \in g.nonces : x.i = i /\ x.id = id /\ x.t = t}
  IN IF r = {} THEN 0 ELSE (CHOOSE x \in r : TRUE).n

InSlot(c, id, t, i) == c.id = id /\ c.t = t /\ c.i = i
Held(g, id, t, i) == \E c \in g.claims : InSlot(c, id, t, i)
ClaimAt(g, id, t, i) == CHOOSE c \in g.claims : InSlot(c, id, t, i)

\* the claim an add_claim call presents (signed with the issuer's current nonce unless corrupted)
NewClaim(g, o) ==
  [id |-> o.id, t |-> o.t, i |-> o.i, def |-> o.def, k |-> o.k, until |-> o.until,
   nonce |-> NonceOf(g, o.i, o.id, o.t) + IF o.def = "nonce" THEN 1 ELSE 0]

(* how a recorded step changes the ghost state (only successful calls do) --*)
GNext(g, ev) ==
  LET o  == ev.op
      g1 == [g EXCEPT !.now = ev.now]
      others == {c \in g1.claims : ~InSlot(c, o.id, o.t, o.i)}
  IN
  IF ev.res # "ok" THEN g1 ELSE
  CASE o.op = "add_topic"  -> [g1 EXCEPT !.topics = @ \cup {o.t}]
    [] o.op = "rm_topic"   -> [g1 EXCEPT !.topics = @ \ {o.t},
                                         !.trust = {p \in @ : p[2] # o.t}]
    [] o.op = "add_issuer" -> [g1 EXCEPT !.trusted = @ \cup {o.i},
                                         !.trust = @ \cup {<<o.i, t>> : t \in o.ts}]
    [] o.op = "rm_issuer"  -> [g1 EXCEPT !.trusted = @ \ {o.i},
                                         !.trust = {p \in @ : p[1] # o.i}]
    [] o.op = "upd_issuer" -> [g1 EXCEPT !.trust = {p \in @ : p[1] # o.i} \cup {<<o.i, t>> : t \in o.ts}]
    [] o.op = "allow_key"  -> [g1 EXCEPT !.keys = @ \cup {<<o.i, o.k, o.t, o.reg>>}]
    [] o.op = "remove_key" -> [g1 EXCEPT !.keys = @ \ {<<o.i, o.k, o.t, o.reg>>}]
    [] o.op = "revoke"     -> [g1 EXCEPT !.revoked = @ \cup {<<o.i, o.id, o.t, o.until>>}]
    [] o.op = "unrevoke"   -> [g1 EXCEPT !.revoked = @ \ {<<o.i, o.id, o.t, o.until>>}]
    [] o.op = "bump"       -> [g1 EXCEPT !.nonces = {x \in @ : ~(x.i = o.i /\ x.id = o.id /\ x.t = o.t)}
                                           \cup {[i |-> o.i, id |-> o.id, t |-> o.t,
                                                  n |-> NonceOf(g1, o.i, o.id, o.t) + 1]}]
    [] o.op = "add_claim"  -> [g1 EXCEPT !.claims = others \cup {NewClaim(g1, o)}]
    [] o.op = "rm_claim"   -> [g1 EXCEPT !.claims = others]
    [] OTHER               -> g1          \* "tick": time only

(* what the property says about one claim ----------------------------------*)
KeyAllowed(g, c) == \E x \in g.keys : x[1] = c.i /\ x[2] = c.k /\ x[3] = c.t
Revoked(g, c)    == <<c.i, c.id, c.t, c.until>> \in g.revoked
NonceOk(g, c)    == c.nonce = NonceOf(g, c.i, c.id, c.t)

\* the issuer must confirm: genuinely signed over network/issuer/identity/topic/current nonce/data
\* by a key currently allowed for the topic, not expired, not revoked
\* ("nonce" is not a lasting corruption: a claim signed for the next nonce becomes genuine once the
\*  issuer bumps the nonce; the nonce comparison below decides)
Sound(c) == c.def \in {None, "nonce"}
Good(g, c) == /\ Sound(c) /\ KeyAllowed(g, c) /\ NonceOk(g, c)
              /\ g.now < c.until /\ ~Revoked(g, c)
\* the issuer must refuse.  At now = until the two documents of the library disagree
\* ("expires after valid_until" / "timestamp >= valid_until"): left open.
Bad(g, c)  == \/ ~Sound(c) \/ ~KeyAllowed(g, c) \/ ~NonceOk(g, c)
              \/ g.now > c.until \/ Revoked(g, c)

WhyBad(g, c) == IF ~Sound(c) THEN c.def
                ELSE IF ~KeyAllowed(g, c) THEN "key_not_allowed"
                ELSE IF ~NonceOk(g, c) THEN "nonce_bumped"
                ELSE IF Revoked(g, c) THEN "revoked"
                ELSE IF g.now > c.until THEN "expired" ELSE "other"

(* monitors -----------------------------------------------------------------*)
\* All monitors are evaluated on the ghost state AFTER the step (h) and the observation
\* taken after the step, so that every reachable configuration is judged, not only the
\* ones at which somebody happens to ask.
Monitors == {"C15_verify_sound", "C15_verify_complete", "C15_no_topics",
             "C15_issuer_iff", "C15_add_claim"}
PropOf(m) == "C15"

Ver(ev, a) == ev.obs.ver[a] = "yes"
Accts(ev)  == DOMAIN ev.obs.ver

\* issuer i, currently trusted for topic t, confirms a claim the identity exposes for (t, i)
Confirmed(ev, id, t, i) == ev.obs.val[id][t][i] = "yes"
TopicOk(h, ev, id, t) == \E i \in DOMAIN ev.obs.val[id][t] : <<i, t>> \in h.trust /\ Confirmed(ev, id, t, i)
Sat(h, ev, a) == /\ h.ident[a] # None
                 /\ \A t \in h.topics : TopicOk(h, ev, h.ident[a], t)

\* slots of the observation
SlotsOf(ev) ==
  UNION {UNION {{<<id, t, i>> : i \in DOMAIN ev.obs.val[id][t]} : t \in DOMAIN ev.obs.val[id]}
         : id \in DOMAIN ev.obs.val}
SlotOk(h, ev, x) ==
  LET v == ev.obs.val[x[1]][x[2]][x[3]] IN
  IF Held(h, x[1], x[2], x[3])
  THEN LET c == ClaimAt(h, x[1], x[2], x[3]) IN (Good(h, c) => v = "yes") /\ (Bad(h, c) => v # "yes")
  ELSE v # "yes"

\* (AnteH / ConsH take the post-state h = GNext(g, ev) so that it is computed once per step)
AnteH(m, g, h, ev) ==
  LET o == ev.op IN
  CASE m = "C15_verify_sound"    -> \E a \in Accts(ev) : Ver(ev, a)
    [] m = "C15_verify_complete" -> h.topics # {} /\ \E a \in Accts(ev) : Sat(h, ev, a)
    [] m = "C15_no_topics"       -> h.topics = {} /\ \E a \in Accts(ev) : h.ident[a] # None
    [] m = "C15_issuer_iff"      -> h.claims # {}
    [] m = "C15_add_claim"       -> o.op = "add_claim" /\ ev.res = "ok" /\ o.id \in g.lib

ConsH(m, g, h, ev) ==
  LET o == ev.op  g1 == [g EXCEPT !.now = ev.now] IN
  CASE m = "C15_verify_sound"    -> \A a \in Accts(ev) : Ver(ev, a) => Sat(h, ev, a)
    [] m = "C15_verify_complete" -> \A a \in Accts(ev) : Sat(h, ev, a) => Ver(ev, a)
    \* zero required topics: every account with a registered identity verifies (vacuous truth);
    \* nothing is claimed about accounts without a registered identity
    [] m = "C15_no_topics"       -> \A a \in Accts(ev) : h.ident[a] # None => Ver(ev, a)
    [] m = "C15_issuer_iff"      -> \A x \in SlotsOf(ev) : SlotOk(h, ev, x)
    \* the library's add_claim stores only what the issuer confirms at that moment
    [] m = "C15_add_claim"       -> ~Bad(g1, NewClaim(g1, o))

Ante(m, g, ev) == AnteH(m, g, GNext(g, ev), ev)
Cons(m, g, ev) == ConsH(m, g, GNext(g, ev), ev)
Holds(m, g, ev) == Ante(m, g, ev) => Cons(m, g, ev)
Failing(g, ev) == LET h == GNext(g, ev) IN {m \in Monitors : AnteH(m, g, h, ev) /\ ~ConsH(m, g, h, ev)}

\* classification (known findings / reports)
Key(m, g, ev) ==
  LET h == GNext(g, ev)  g1 == [g EXCEPT !.now = ev.now] IN
  CASE m = "C15_verify_sound" ->
         IF \E a \in Accts(ev) : Ver(ev, a) /\ h.ident[a] = None THEN "no_identity"
         ELSE IF \E t \in h.topics : ~\E p \in h.trust : p[2] = t THEN "topic_without_issuer"
         ELSE "unconfirmed_or_untrusted"
    [] m = "C15_issuer_iff" ->
         LET bad == {x \in SlotsOf(ev) : ~SlotOk(h, ev, x)}
             x == CHOOSE y \in bad : TRUE
         IN IF ~Held(h, x[1], x[2], x[3]) THEN "confirms_absent"
            ELSE IF Good(h, ClaimAt(h, x[1], x[2], x[3])) THEN "refuses_good"
            ELSE WhyBad(h, ClaimAt(h, x[1], x[2], x[3]))
    [] m = "C15_add_claim" -> WhyBad(g1, NewClaim(g1, ev.op))
    [] OTHER -> "other"
=============================================================================
