------------------------ MODULE Trace_MerkleVoting ------------------------
(* Trace validation for MerkleVoting.tla (conventions: see Trace_RoleTransfer; `dead` stays FALSE: after a    *)
(* failure other than the missing voter authorization the ghost is re-based on the observation, see GStep,   *)
(* so no part of a run is skipped).                                                                          *)
EXTENDS MerkleVoting, TLC, Json, IOUtils
Rec == ndJsonDeserialize(IOEnv.TRACE)
VARIABLES l, g, dead, cnt
vars == <<l, g, dead, cnt>>
ToSet(s) == {s[i] : i \in DOMAIN s}
Norm(ev) == [op |-> [op |-> ev.op.op, k |-> ev.op.k, mut |-> ev.op.mut, idx |-> ev.op.idx, acct |-> ev.op.acct,
                     pow |-> ev.op.pow, proof |-> ev.op.proof, approve |-> ev.op.approve, auth |-> ToSet(ev.op.auth)],
             res |-> ev.res, pvalid |-> ev.pvalid, run |-> ev.run, i |-> ev.i,
             obs |-> [pro |-> ev.obs.pro, con |-> ev.obs.con, exact |-> ev.obs.exact,
                      ids |-> ToSet(ev.obs.ids), voted |-> ToSet(ev.obs.voted)]]
LeafOf(x) == [idx |-> x.idx, acct |-> x.acct, pow |-> x.pow]
Init == l = 1 /\ g = [max |-> 0] /\ dead = FALSE /\ cnt = [m \in Monitors |-> 0]
Report(ev, m) == PrintT(<<"VIOL", ToJson([run |-> ev.run, i |-> ev.i, line |-> l, mon |-> m,
                                          prop |-> PropOf(m), key |-> Key(m, g, ev)])>>)
Next ==
  /\ l <= Len(Rec)
  /\ l' = l + 1
  /\ LET raw == Rec[l] IN
     IF raw.op.op = "reset"
     THEN g' = GInit({LeafOf(x) : x \in ToSet(raw.op.leaves)}, raw.op.max) /\ dead' = FALSE /\ UNCHANGED cnt
     ELSE IF dead THEN UNCHANGED <<g, dead, cnt>>
     ELSE LET ev == Norm(raw)  f == Failing(g, ev) IN
          /\ \A m \in f : Report(ev, m)
          /\ dead' = FALSE
          /\ g' = GStep(g, ev)
          /\ cnt' = [m \in Monitors |-> cnt[m] + IF Ante(m, g, ev) THEN 1 ELSE 0]
  /\ (l = Len(Rec) => PrintT(<<"DONE", l, ToJson(cnt')>>))
Spec == Init /\ [][Next]_vars
=============================================================================
