------------------------------ MODULE MC_Vault ------------------------------
(***************************************************************************)
(* Implementation-shaped model of packages/tokens/src/vault/storage.rs     *)
(* (deposit / mint / withdraw / redeem with their previews, the operator   *)
(* paths through asset and share allowances) over a Base asset token.      *)
(***************************************************************************)
EXTENDS Vault, TLC, Json

CONSTANTS Off,           \* decimals offset
          Amts,          \* amounts tried
          Fund,          \* assets each user starts with
          Depth, EmitEvery,
          BUG            \* "" | "withdraw_floor" | "mint_floor" | "no_plus_one" | "preview_other_rounding"

VARIABLES asset, sh, supply, sal, aal, g, viol, hist
vars == <<asset, sh, supply, sal, aal, g, viol, hist>>
View == <<asset, sh, supply, sal, aal, g, viol, Len(hist)>>

Acct == {"a", "b", "c"}
All == Acct \cup {V}
PP == Pow10(Off)

FloorDiv(num, den) == num \div den
CeilDiv(num, den) == (num + den - 1) \div den

\* convert_to_shares / convert_to_assets with the rounding the code requests
ToShares(x, up) == LET num == x * (supply + PP)
                       den == IF BUG = "no_plus_one" THEN (IF asset[V] = 0 THEN 1 ELSE asset[V]) ELSE asset[V] + 1
                   IN IF x = 0 THEN 0 ELSE IF up THEN CeilDiv(num, den) ELSE FloorDiv(num, den)
ToAssets(x, up) == LET num == x * (asset[V] + 1)  den == supply + PP
                   IN IF x = 0 THEN 0 ELSE IF up THEN CeilDiv(num, den) ELSE FloorDiv(num, den)

Preview(o) == CASE o.op = "deposit"  -> ToShares(o.x, FALSE)
                [] o.op = "mint"     -> ToAssets(o.x, BUG # "mint_floor")
                [] o.op = "withdraw" -> ToShares(o.x, BUG # "withdraw_floor")
                [] o.op = "redeem"   -> ToAssets(o.x, FALSE)
\* what the public preview_* getter answers (differs from the operation only under a seeded bug)
PublicPreview(o) == IF BUG = "preview_other_rounding" /\ o.op = "withdraw" THEN ToShares(o.x, FALSE)
                    ELSE Preview(o)

MaxWithdraw(own) == ToAssets(sh[own], FALSE)

ImplOk(o) ==
  CASE o.op \in Enter ->
         /\ o.oper \in o.auth /\ o.x >= 0
         /\ LET assets == AssetsOf(o, Preview(o)) IN
            /\ ~o.nosub
            /\ asset[o.own] >= assets
            /\ (o.oper # o.own => aal[o.own][o.oper] >= assets)
    [] o.op = "withdraw" ->
         /\ o.oper \in o.auth /\ o.x <= MaxWithdraw(o.own) /\ o.x >= 0
         /\ LET shares == Preview(o) IN
            /\ (o.oper # o.own => sal[o.own][o.oper] >= shares)
            /\ sh[o.own] >= shares /\ asset[V] >= o.x
    [] o.op = "redeem" ->
         /\ o.oper \in o.auth /\ o.x <= sh[o.own] /\ o.x >= 0
         /\ (o.oper # o.own => sal[o.own][o.oper] >= o.x)
         /\ asset[V] >= Preview(o)
    [] o.op = "donate"   -> o.own \in o.auth /\ o.x >= 0 /\ asset[o.own] >= o.x
    [] o.op = "sapprove" -> o.own \in o.auth /\ o.x >= 0
    [] o.op = "aapprove" -> o.own \in o.auth /\ o.x >= 0
    [] o.op = "stransfer" -> o.own \in o.auth /\ o.x >= 0 /\ sh[o.own] >= o.x
    [] o.op = "stransfer_from" -> o.oper \in o.auth /\ o.x >= 0 /\ sal[o.own][o.oper] >= o.x /\ sh[o.own] >= o.x

ImplEffect(o) ==
  LET r == IF o.op \in VaultOps THEN Preview(o) ELSE 0
      assets == AssetsOf(o, r)  shares == SharesOf(o, r) IN
  CASE o.op \in Enter ->
         /\ asset' = Add(Add(asset, o.own, -assets), V, assets)
         /\ aal' = IF o.oper # o.own THEN [aal EXCEPT ![o.own][o.oper] = @ - assets] ELSE aal
         /\ sh' = Add(sh, o.recv, shares) /\ supply' = supply + shares /\ UNCHANGED sal
    [] o.op \in Leave ->
         /\ sal' = IF o.oper # o.own THEN [sal EXCEPT ![o.own][o.oper] = @ - shares] ELSE sal
         /\ sh' = Add(sh, o.own, -shares) /\ supply' = supply - shares
         /\ asset' = Add(Add(asset, V, -assets), o.recv, assets) /\ UNCHANGED aal
    [] o.op = "donate"   -> asset' = Add(Add(asset, o.own, -o.x), V, o.x) /\ UNCHANGED <<sh, supply, sal, aal>>
    [] o.op = "sapprove" -> sal' = [sal EXCEPT ![o.own][o.oper] = o.x] /\ UNCHANGED <<asset, sh, supply, aal>>
    [] o.op = "aapprove" -> aal' = [aal EXCEPT ![o.own][o.oper] = o.x] /\ UNCHANGED <<asset, sh, supply, sal>>
    [] o.op = "stransfer" -> sh' = Add(Add(sh, o.own, -o.x), o.recv, o.x) /\ UNCHANGED <<asset, supply, sal, aal>>
    [] o.op = "stransfer_from" ->
         /\ sh' = Add(Add(sh, o.own, -o.x), o.recv, o.x)
         /\ sal' = [sal EXCEPT ![o.own][o.oper] = @ - o.x] /\ UNCHANGED <<asset, supply, aal>>

Op(op, x, recv, own, oper, auth, nosub) ==
  [op |-> op, x |-> x, recv |-> recv, own |-> own, oper |-> oper, auth |-> auth, nosub |-> nosub]

Pairs == {<<"a", "a">>, <<"b", "b">>, <<"a", "c">>}
Ops ==
  {Op(k, x, p[1], p[1], p[2], IF w THEN {p[2]} ELSE {}, FALSE) :
      k \in VaultOps, x \in Amts, p \in Pairs, w \in BOOLEAN}
  \cup {Op(k, x, "b", "a", "a", {"a"}, FALSE) : k \in VaultOps, x \in Amts \ {0}}
  \* the vault's own address as receiver: shares it holds are shares like any other
  \cup {Op(k, x, V, "a", "a", {"a"}, FALSE) : k \in Enter, x \in {1, 3}}
  \cup {Op(k, 1, "a", "a", "a", {"a"}, TRUE) : k \in Enter}
  \cup {Op(k, 1, "a", "a", "c", {"a"}, FALSE) : k \in Leave}
  \cup {Op("donate", x, None, own, None, {own}, FALSE) : x \in {1, 3}, own \in {"a", "b"}}
  \cup {Op("sapprove", x, None, "a", "c", {"a"}, FALSE) : x \in {0, 2, 5}}
  \cup {Op("aapprove", 3, None, "a", "c", {"a"}, FALSE), Op("sapprove", 2, None, "a", "c", {"c"}, FALSE)}
  \cup {Op("stransfer", x, "b", "a", None, IF w THEN {"a"} ELSE {}, FALSE) : x \in {1, 2}, w \in BOOLEAN}
  \cup {Op("stransfer_from", 1, "b", "a", "c", au, FALSE) : au \in {{"c"}, {"a"}}}

Zero2 == [o \in All |-> [s \in All |-> 0]]
ObsOf(as, s, su, sa, aa) == [asset |-> as, sh |-> s, supply |-> su, sal |-> sa, aal |-> aa]

Init ==
  /\ asset = [a \in All |-> IF a \in {"a", "b"} THEN Fund ELSE 0]
  /\ sh = [a \in All |-> 0] /\ supply = 0 /\ sal = Zero2 /\ aal = Zero2
  /\ g = GInit(ObsOf(asset, sh, supply, sal, aal), Off)
  /\ viol = {} /\ hist = <<>>

Step(o) ==
  LET ok == ImplOk(o)
      pv == IF o.op \in VaultOps /\ o.x >= 0 THEN PublicPreview(o) ELSE Bad
      ret == IF ok /\ o.op \in VaultOps THEN Preview(o) ELSE Bad
      ev == [op |-> o, res |-> IF ok THEN "ok" ELSE "fail", pv |-> pv, ret |-> ret,
             obs |-> ObsOf(asset', sh', supply', sal', aal'),
             q |-> LET A2 == asset'[V]  S2 == supply'  px == IF o.x > 0 THEN o.x ELSE 3 IN
                   [ta |-> A2, px |-> px,
                    cs1 |-> FloorDiv(1 * (S2 + PP), A2 + 1), csx |-> FloorDiv(px * (S2 + PP), A2 + 1),
                    ca1 |-> FloorDiv(1 * (A2 + 1), S2 + PP), cax |-> FloorDiv(px * (A2 + 1), S2 + PP),
                    maxr |-> sh', maxw |-> [a \in DOMAIN sh' |-> FloorDiv(sh'[a] * (A2 + 1), S2 + PP)]],
             evs |-> IF ok THEN ExpEvents(o, ret) ELSE << >>]
  IN /\ IF ok THEN ImplEffect(o) ELSE UNCHANGED <<asset, sh, supply, sal, aal>>
     /\ g' = GNext(g, ev)
     /\ viol' = viol \cup {<<m, Key(m, g, ev)>> : m \in Failing(g, ev)}
     /\ hist' = Append(hist, o @@ [exp |-> ev.res])

Next == Len(hist) < Depth /\ \E o \in Ops : Step(o)
Bound == Len(hist) <= Depth
EmitReplay == (EmitEvery > 0 /\ RandomElement(1..EmitEvery) = 1) => PrintT(<<"REPLAY", ToJson(hist')>>)

NoViolation == viol = {}
Refines == g.asset = asset /\ g.sh = sh /\ g.supply = supply /\ g.sal = sal /\ g.aal = aal
=============================================================================
