------------------------ MODULE Trace_SmartAccount ------------------------
(***************************************************************************)
(* Trace validation: reads the ndjson trace recorded from the real multisig *)
(* account (env TRACE), advances the ghost state of SmartAccount.tla by     *)
(* each recorded step and evaluates every monitor on it.  Violations are    *)
(* collected (VIOL lines); after a violation of a property the monitors of that property are        *)
(* skipped and validation resumes at the next reset event.  `cnt` counts,   *)
(* per monitor, the steps on which its antecedent held.                     *)
(***************************************************************************)
EXTENDS SmartAccount, Json, IOUtils

Rec == ndJsonDeserialize(IOEnv.TRACE)

VARIABLES l, g, dead, cnt
vars == <<l, g, dead, cnt>>

NormCall(c) == [p |-> c.p, rule |-> c.rule, ctx |-> c.ctx, sg |-> ToSet(c.sg), ok |-> c.ok]
Norm(ev) ==
  [run |-> ev.run, i |-> ev.i, now |-> ev.now, res |-> ev.res, ret |-> ev.ret, obs |-> ev.obs,
   op  |-> [op |-> ev.op.op, dt |-> ev.op.dt, id |-> ev.op.id, ct |-> ev.op.ct, vu |-> ev.op.vu, name |-> ev.op.name,
            signers |-> ev.op.signers, pols |-> ToSet(ev.op.pols), s |-> ev.op.s, p |-> ev.op.p, k |-> ev.op.k,
            rf |-> ev.op.rf, sigs |-> ToSet(ev.op.sigs), bad |-> ToSet(ev.op.bad), ctxs |-> ev.op.ctxs],
   log |-> [ver |-> ToSet(ev.log.ver), can |-> {NormCall(c) : c \in ToSet(ev.log.can)},
            enf |-> [j \in DOMAIN ev.log.enf |-> NormCall(ev.log.enf[j])], commit |-> ev.log.commit]]

Init == l = 1 /\ g = GInit /\ dead = {} /\ cnt = [m \in Monitors |-> 0]

Report(ev, m) == PrintT(<<"VIOL", ToJson([run |-> ev.run, i |-> ev.i, line |-> l, mon |-> m,
                                          prop |-> PropOf(m), key |-> Key(m, g, ev), after |-> dead])>>)

Next ==
  /\ l <= Len(Rec)
  /\ l' = l + 1
  /\ LET raw == Rec[l] IN
     IF raw.op.op = "reset" THEN g' = GInit /\ dead' = {} /\ UNCHANGED cnt
     ELSE LET ev == Norm(raw)  f == {m \in Failing(g, ev) : PropOf(m) \notin dead}  en == Engaged(g, ev) IN
          /\ \A m \in f : Report(ev, m)
          /\ dead' = dead \cup {PropOf(m) : m \in f}
          /\ g' = GNext(g, ev)
          /\ cnt' = [m \in Monitors |-> cnt[m] + IF m \in en THEN 1 ELSE 0]
  /\ (l = Len(Rec) => PrintT(<<"DONE", l, ToJson(cnt')>>))

Spec == Init /\ [][Next]_vars
=============================================================================
