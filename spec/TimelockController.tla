------------------------ MODULE TimelockController ------------------------
(***************************************************************************)
(* Property-level specification of the self-administered timelock          *)
(* controller (examples/timelock-controller): property C09.                *)
(*                                                                         *)
(* Parties: accounts "p" (initial proposer + canceller), "x", "n", "s"     *)
(* (executor candidates / stranger; "n"'s account contract refuses every   *)
(* authorization: g.deny), and "c", the controller itself, which is its    *)
(* own admin.                                                              *)
(*                                                                         *)
(* Calls (the things an operation can ask for), by name:                   *)
(*   ud0, ud3  update_delay(0|3)          grXs  grant_role(s, executor, c)  *)
(*   grPs  grant_role(s, proposer, c)     rvXx  revoke_role(x, executor, c) *)
(*   rvPp  revoke_role(p, proposer, c)    sra   set_role_admin(proposer,    *)
(*   tar   transfer_admin_role(s, far)          canceller)                  *)
(*   rna   renounce_admin()               ext   target.poke(7, 77)          *)
(* All but `ext` are invocations of the controller itself whose authority   *)
(* is the controller's own authorization.                                   *)
(*                                                                         *)
(* Operations: g.optab[name] = [call, pred (operation name | "none"),      *)
(* salt] - fixed per run, sent by the reset event.  An operation descriptor *)
(* (OperationMeta) is [pred, salt, exec]; together with the call of the    *)
(* context it is paired with it designates at most one operation: OpFor.   *)
(*                                                                         *)
(* Event ops (every op record has the same fields):                        *)
(*   schedule(id, delay, who, auth)   schedule_op by `who`; auth = who's    *)
(*                                    authorization entry for exactly this  *)
(*                                    invocation is attached                *)
(*   cancel(id, who, auth), execute(id, who | "none", auth)                *)
(*   admin(call, entry, metas, sub, xauth)  the admin function is invoked   *)
(*        directly; entry: an authorization entry for the controller's own *)
(*        address is attached whose root is exactly this invocation, whose *)
(*        only sub-invocation is `sub` (if not "none") and whose signature *)
(*        is the descriptor vector `metas`; xauth: accounts for which an   *)
(*        entry authorizing exactly the executor tuple of every            *)
(*        (context, descriptor) pair is attached - except for the pair     *)
(*        number xskip (1-based; 0: none is left out)                      *)
(*   chk(ctxs, metas, xauth)  __check_auth entered directly with crafted    *)
(*        contexts: call names (a context on the controller), "foreign"    *)
(*        (update_delay(0) on another contract), "create" (a create-       *)
(*        contract context)                                                *)
(* obs: min, admin, roles (pairs), radm (role -> admin role | "none"),     *)
(*      ops (name -> "Unset"|"Waiting"|"Ready"|"Done")                     *)
(***************************************************************************)
EXTENDS Naturals, Sequences, FiniteSets

Roles == {"proposer", "executor", "canceller"}
AdminCalls == {"ud0", "ud3", "grXs", "grPs", "rvXx", "rvPp", "sra", "tar", "rna"}
NoOp == "none"

UnsetOp == [st |-> "unset", at |-> 0, delay |-> 0]

GInit(optab, deny, min, roles) ==
  [optab |-> optab, deny |-> deny, min |-> min, roles |-> roles, admin |-> "c", pend |-> "none",
   radm |-> [r \in Roles |-> "none"], o |-> [i \in DOMAIN optab |-> UnsetOp]]

OpNames(g) == DOMAIN g.optab

\* the operation designated by a context's call and a descriptor
OpFor(g, k, d) ==
  LET S == {i \in OpNames(g) : g.optab[i].call = k /\ g.optab[i].pred = d.pred /\ g.optab[i].salt = d.salt}
  IN IF S = {} THEN NoOp ELSE CHOOSE i \in S : TRUE

ReadyIn(om, i, now) == om[i].st = "sched" /\ now >= om[i].at + om[i].delay
PredDoneIn(g, om, i) == g.optab[i].pred = "none" \/ (g.optab[i].pred \in OpNames(g) /\ om[g.optab[i].pred].st = "done")

Holds_(g, a, r) == <<a, r>> \in g.roles
ExecsConfigured(g) == \E pr \in g.roles : pr[2] = "executor"
\* the descriptor names an executor that holds the role and whose authorization is attached and
\* accepted by its account
ExecOK(g, d, xauth) == d.exec # "none" /\ Holds_(g, d.exec, "executor") /\ d.exec \in xauth /\ d.exec \notin g.deny

\* the contexts the controller's __check_auth is asked about
CtxsOf(o) == IF o.op = "admin" THEN <<o.call>> \o (IF o.sub = "none" THEN <<>> ELSE <<o.sub>>) ELSE o.ctxs

\* one descriptor per context, each designating an operation on the controller that is Ready with
\* its predecessor Done at that moment; operations are consumed one after the other
RECURSIVE PayloadRun(_, _, _, _, _, _)
PayloadRun(g, om, ctxs, metas, now, i) ==
  IF i > Len(ctxs) THEN [ok |-> TRUE, om |-> om]
  ELSE IF i > Len(metas) THEN [ok |-> FALSE, om |-> om]
  ELSE LET k == ctxs[i]  i0 == OpFor(g, k, metas[i]) IN
       IF k \in AdminCalls /\ i0 # NoOp /\ ReadyIn(om, i0, now) /\ PredDoneIn(g, om, i0)
       THEN PayloadRun(g, [om EXCEPT ![i0] = [UnsetOp EXCEPT !.st = "done"]], ctxs, metas, now, i + 1)
       ELSE [ok |-> FALSE, om |-> om]
Payload(g, o, now) == PayloadRun(g, g.o, CtxsOf(o), o.metas, now, 1)

Effect(g, k) ==
  CASE k = "ud0"  -> [g EXCEPT !.min = 0]
    [] k = "ud3"  -> [g EXCEPT !.min = 3]
    [] k = "grXs" -> [g EXCEPT !.roles = @ \cup {<<"s", "executor">>}]
    [] k = "grPs" -> [g EXCEPT !.roles = @ \cup {<<"s", "proposer">>}]
    [] k = "rvXx" -> [g EXCEPT !.roles = @ \ {<<"x", "executor">>}]
    [] k = "rvPp" -> [g EXCEPT !.roles = @ \ {<<"p", "proposer">>}]
    [] k = "sra"  -> [g EXCEPT !.radm["proposer"] = "canceller"]
    [] k = "tar"  -> [g EXCEPT !.pend = "s"]
    [] k = "rna"  -> [g EXCEPT !.admin = "none"]
    [] OTHER      -> g

GNext(g, ev) ==
  LET o == ev.op  ok == ev.res = "ok" IN
  IF ~ok THEN g ELSE
  CASE o.op = "schedule" /\ o.id \in OpNames(g) ->
         [g EXCEPT !.o[o.id] = [st |-> "sched", at |-> ev.now, delay |-> o.delay]]
    [] o.op = "cancel" /\ o.id \in OpNames(g) ->
         IF g.o[o.id].st = "sched" THEN [g EXCEPT !.o[o.id] = UnsetOp] ELSE g
    [] o.op = "execute" /\ o.id \in OpNames(g) -> [g EXCEPT !.o[o.id] = [UnsetOp EXCEPT !.st = "done"]]
    [] o.op = "admin" -> LET r == Payload(g, o, ev.now) IN Effect([g EXCEPT !.o = r.om], o.call)
    [] o.op = "chk"   -> LET r == Payload(g, o, ev.now) IN [g EXCEPT !.o = r.om]
    [] OTHER -> g

ExpState(x, now) == CASE x.st = "unset" -> "Unset" [] x.st = "done" -> "Done"
                      [] OTHER -> IF now >= x.at + x.delay THEN "Ready" ELSE "Waiting"

(* monitors ---------------------------------------------------------------*)
Monitors == {"C09_consumed", "C09_executor", "C09_roles", "C09_payload", "C09_frame"}
PropOf(m) == "C09"

Ante(m, g, ev) ==
  LET o == ev.op  ok == ev.res = "ok" IN
  CASE m = "C09_consumed" -> o.op = "admin" /\ ok
    [] m = "C09_executor" -> o.op \in {"admin", "chk"} /\ ok /\ ExecsConfigured(g)
    [] m = "C09_roles"    -> o.op \in {"schedule", "cancel", "execute"} /\ ok
    [] m = "C09_payload"  -> o.op \in {"admin", "chk"} /\ ok
    [] m = "C09_frame"    -> TRUE

\* who may make the call at all: the admin, or - for granting / revoking a role - a holder of that role's admin
\* role (the controller can hold roles itself once a matured operation granted them to it)
RoleOfCall(k) == CASE k \in {"grXs", "rvXx"} -> "executor" [] k \in {"grPs", "rvPp"} -> "proposer" [] OTHER -> "none"
Authority(g, k) ==
  \/ g.admin = "c"
  \/ /\ RoleOfCall(k) # "none" /\ g.radm[RoleOfCall(k)] # "none"
     /\ <<"c", g.radm[RoleOfCall(k)]>> \in g.roles
Cons(m, g, ev) ==
  LET o == ev.op  ok == ev.res = "ok"  now == ev.now IN
  \* an admin-only function took effect: the controller is the admin, and the descriptor paired
  \* with this very call designates an operation for exactly this call that was Ready (predecessor
  \* Done) before and is Done after
  CASE m = "C09_consumed" ->
         /\ Authority(g, o.call) /\ o.entry
         /\ Len(o.metas) >= 1
         /\ LET i0 == OpFor(g, o.call, o.metas[1]) IN
            /\ i0 # NoOp /\ ReadyIn(g.o, i0, now) /\ PredDoneIn(g, g.o, i0)
            /\ ev.obs.ops[i0] = "Done"
    \* executors configured: the call's descriptor (every context's descriptor when __check_auth
    \* is entered directly) names a role-holding executor that authorized
    [] m = "C09_executor" ->
         IF o.op = "admin" THEN Len(o.metas) >= 1 /\ o.xskip # 1 /\ ExecOK(g, o.metas[1], o.xauth)
         ELSE \A i \in 1..Len(o.ctxs) : i <= Len(o.metas) /\ i # o.xskip /\ ExecOK(g, o.metas[i], o.xauth)
    [] m = "C09_roles" ->
         (CASE o.op = "schedule" -> Holds_(g, o.who, "proposer") /\ o.auth /\ o.who \notin g.deny
            [] o.op = "cancel"   -> Holds_(g, o.who, "canceller") /\ o.auth /\ o.who \notin g.deny
            [] o.op = "execute"  -> ExecsConfigured(g) =>
                                      (Holds_(g, o.who, "executor") /\ o.auth /\ o.who \notin g.deny))
    \* nothing empty, short or mismatched goes through
    \* (a descriptor for every context; surplus descriptors authorize nothing and are not judged)
    [] m = "C09_payload" -> Payload(g, o, now).ok
    \* the admin state and the operation states are what the consumed operations made them
    [] m = "C09_frame" ->
         LET g2 == GNext(g, ev) IN
         /\ ev.obs.min = g2.min /\ ev.obs.admin = g2.admin /\ ev.obs.roles = g2.roles
         /\ \A r \in Roles : ev.obs.radm[r] = g2.radm[r]
         /\ \A i \in OpNames(g) : ev.obs.ops[i] = ExpState(g2.o[i], now)

Holds(m, g, ev) == Ante(m, g, ev) => Cons(m, g, ev)

Key(m, g, ev) ==
  LET o == ev.op IN
  IF m \in {"C09_consumed", "C09_payload", "C09_executor"} /\ o.op \in {"admin", "chk"} THEN
     CASE Len(o.metas) = 0                 -> "empty_descriptors"
       [] Len(o.metas) < Len(CtxsOf(o))    -> "fewer_descriptors_than_contexts"
       [] Len(o.metas) > Len(CtxsOf(o))    -> "more_descriptors_than_contexts"
       [] OTHER                            -> "other"
  ELSE IF m = "C09_roles" THEN o.op
  ELSE "other"

Failing(g, ev) == {m \in Monitors : ~Holds(m, g, ev)}
=============================================================================
