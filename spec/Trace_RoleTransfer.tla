------------------------ MODULE Trace_RoleTransfer ------------------------
(***************************************************************************)
(* Trace validation: reads the ndjson trace recorded from the real         *)
(* contracts (env TRACE), advances the ghost state of RoleTransfer.tla by   *)
(* each recorded step and evaluates every monitor on it.  Violations are    *)
(* collected (printed as VIOL lines), not merely "first rejected line";     *)
(* after a violation of a property the monitors of that property are skipped (its ghost state is no *)
(* longer meaningful) and validation resumes at the next reset event.       *)
(* `cnt` counts, per monitor, the steps on which its antecedent held.       *)
(***************************************************************************)
EXTENDS RoleTransfer, TLC, Json, IOUtils

Rec == ndJsonDeserialize(IOEnv.TRACE)

VARIABLES l, g, dead, cnt
vars == <<l, g, dead, cnt>>

ToSet(s) == {s[i] : i \in DOMAIN s}
Norm(ev) == [ev EXCEPT !.op = [op |-> ev.op.op, new |-> ev.op.new, until |-> ev.op.until,
                                auth |-> ToSet(ev.op.auth), dt |-> ev.op.dt]]

Init == l = 1 /\ g = GInit(NoOne) /\ dead = {} /\ cnt = [m \in Monitors |-> 0]

Report(ev, m) == PrintT(<<"VIOL", ToJson([run |-> ev.run, i |-> ev.i, line |-> l, mon |-> m,
                                          prop |-> PropOf(m), key |-> Key(m, g, ev), after |-> dead])>>)

Next ==
  /\ l <= Len(Rec)
  /\ l' = l + 1
  /\ LET raw == Rec[l] IN
     IF raw.op.op = "reset" THEN g' = GInit(raw.obs.holder) /\ dead' = {} /\ UNCHANGED cnt
     ELSE LET ev == Norm(raw)  f == {m \in Failing(g, ev) : PropOf(m) \notin dead} IN
          /\ \A m \in f : Report(ev, m)
          /\ dead' = dead \cup {PropOf(m) : m \in f}
          /\ g' = GNext(g, ev)
          /\ cnt' = [m \in Monitors |-> cnt[m] + IF Ante(m, g, ev) THEN 1 ELSE 0]
  /\ (l = Len(Rec) => PrintT(<<"DONE", l, ToJson(cnt')>>))

Spec == Init /\ [][Next]_vars
=============================================================================
