------------------------------ MODULE MC_Gates ------------------------------
(* Implementation-shaped model of contract-utils pausable (+ the example's owner check and the  *)
(* #[when_not_paused] / #[when_paused] macros) and of the Migrating flag behind the derive       *)
(* macros Upgradeable / UpgradeableMigratable.                                                    *)
EXTENDS Gates, TLC, Json

CONSTANTS Flavour,     \* "counter" | "upgrade" (v1 upgraded to v2) | "upgrade2" (v2 deployed directly, never upgraded)
          Depth, Emit,
          BUG          \* "" | "migrate_keeps_flag" | "pause_twice" | "migrate_when_unset"

VARIABLES paused, counter, migrating, isV2, g, viol, hist
vars == <<paused, counter, migrating, isV2, g, viol, hist>>
View == <<paused, counter, migrating, isV2, g, viol, Len(hist)>>
Upg == {"upgrade", "upgrade2"}
Owner == "a"
Callers == {"a", "b"}

OwnerAuth(o) == o.caller \in o.auth /\ o.caller = Owner
ImplOk(o) ==
  CASE o.op = "increment" -> Flavour = "counter" /\ ~paused
    [] o.op = "ereset"    -> Flavour = "counter" /\ paused
    [] o.op = "pause"     -> Flavour = "counter" /\ OwnerAuth(o) /\ (BUG = "pause_twice" \/ ~paused)
    [] o.op = "unpause"   -> Flavour = "counter" /\ OwnerAuth(o) /\ paused
    [] o.op = "upgrade"   -> Flavour \in Upg /\ OwnerAuth(o)
    \* v1 has no migrate entry point: before the first upgrade the call cannot be dispatched
    [] o.op = "migrate"   -> /\ Flavour \in Upg /\ (Flavour = "upgrade" => isV2) /\ OwnerAuth(o)
                             /\ (migrating = "yes" \/ (BUG = "migrate_when_unset" /\ migrating = "unset"))
ImplEffect(o) ==
  CASE o.op = "increment" -> counter' = counter + 1 /\ UNCHANGED <<paused, migrating, isV2>>
    [] o.op = "ereset"    -> counter' = 0 /\ UNCHANGED <<paused, migrating, isV2>>
    [] o.op = "pause"     -> paused' = TRUE /\ UNCHANGED <<counter, migrating, isV2>>
    [] o.op = "unpause"   -> paused' = FALSE /\ UNCHANGED <<counter, migrating, isV2>>
    [] o.op = "upgrade"   -> migrating' = "yes" /\ isV2' = TRUE /\ UNCHANGED <<paused, counter>>
    [] o.op = "migrate"   -> /\ migrating' = (IF BUG = "migrate_keeps_flag" THEN migrating ELSE "no")
                             /\ UNCHANGED <<paused, counter, isV2>>

Ops == IF Flavour = "counter"
       THEN [op : {"increment", "ereset"}, caller : {"b"}, auth : {{}}]
            \cup [op : {"pause", "unpause"}, caller : Callers, auth : SUBSET Callers]
       ELSE [op : {"upgrade", "migrate"}, caller : Callers, auth : SUBSET Callers]

Init == /\ paused = FALSE /\ counter = 0 /\ migrating = "unset" /\ isV2 = (Flavour = "upgrade2")
        /\ g = GInit(Flavour, Owner, [paused |-> FALSE, pending |-> FALSE])
        /\ viol = {} /\ hist = <<>>
Step(o) ==
  LET ok == ImplOk(o)
      ev == [op |-> o, res |-> IF ok THEN "ok" ELSE "fail",
             ret |-> IF ok /\ o.op = "increment" THEN counter' ELSE 0,
             obs |-> [paused |-> paused', pending |-> (migrating' = "yes")]]
  IN /\ IF ok THEN ImplEffect(o) ELSE UNCHANGED <<paused, counter, migrating, isV2>>
     /\ g' = GNext(g, ev)
     /\ viol' = viol \cup {<<m, Key(m, g, ev)>> : m \in Failing(g, ev)}
     /\ hist' = Append(hist, o @@ [exp |-> ev.res])
Next == Len(hist) < Depth /\ \E o \in Ops : Step(o)
Bound == Len(hist) <= Depth
EmitReplay == Emit => PrintT(<<"REPLAY", ToJson(hist')>>)
NoViolation == viol = {}
Refines == g.paused = paused /\ g.pending = (migrating = "yes") /\ g.counter = counter
=============================================================================
