------------------------------ MODULE MC_Gates ------------------------------
(* Implementation-shaped model of contract-utils pausable (+ the example's owner check and the  *)
(* #[when_not_paused] / #[when_paused] macros) and of the Migrating flag behind the derive       *)
(* macros Upgradeable / UpgradeableMigratable.                                                    *)
EXTENDS Gates, TLC, Json

CONSTANTS Flavour, Depth, Emit, BUG     \* BUG: "" | "migrate_keeps_flag" | "pause_twice"

VARIABLES paused, counter, migrating, g, viol, hist
vars == <<paused, counter, migrating, g, viol, hist>>
View == <<paused, counter, migrating, g, viol, Len(hist)>>
Owner == "a"
Callers == {"a", "b"}

OwnerAuth(o) == o.caller \in o.auth /\ o.caller = Owner
ImplOk(o) ==
  CASE o.op = "increment" -> Flavour = "counter" /\ ~paused
    [] o.op = "ereset"    -> Flavour = "counter" /\ paused
    [] o.op = "pause"     -> Flavour = "counter" /\ OwnerAuth(o) /\ (BUG = "pause_twice" \/ ~paused)
    [] o.op = "unpause"   -> Flavour = "counter" /\ OwnerAuth(o) /\ paused
    [] o.op = "upgrade"   -> Flavour = "upgrade" /\ OwnerAuth(o)
    [] o.op = "migrate"   -> Flavour = "upgrade" /\ OwnerAuth(o) /\ migrating
ImplEffect(o) ==
  CASE o.op = "increment" -> counter' = counter + 1 /\ UNCHANGED <<paused, migrating>>
    [] o.op = "ereset"    -> counter' = 0 /\ UNCHANGED <<paused, migrating>>
    [] o.op = "pause"     -> paused' = TRUE /\ UNCHANGED <<counter, migrating>>
    [] o.op = "unpause"   -> paused' = FALSE /\ UNCHANGED <<counter, migrating>>
    [] o.op = "upgrade"   -> migrating' = TRUE /\ UNCHANGED <<paused, counter>>
    [] o.op = "migrate"   -> migrating' = (BUG = "migrate_keeps_flag") /\ UNCHANGED <<paused, counter>>

Ops == IF Flavour = "counter"
       THEN [op : {"increment", "ereset"}, caller : {"b"}, auth : {{}}]
            \cup [op : {"pause", "unpause"}, caller : Callers, auth : SUBSET Callers]
       ELSE [op : {"upgrade", "migrate"}, caller : Callers, auth : SUBSET Callers]

Init == /\ paused = FALSE /\ counter = 0 /\ migrating = FALSE
        /\ g = GInit(Flavour, Owner, [paused |-> FALSE, pending |-> FALSE])
        /\ viol = {} /\ hist = <<>>
Step(o) ==
  LET ok == ImplOk(o)
      ev == [op |-> o, res |-> IF ok THEN "ok" ELSE "fail",
             ret |-> IF ok /\ o.op = "increment" THEN counter' ELSE 0,
             obs |-> [paused |-> paused', pending |-> migrating']]
  IN /\ IF ok THEN ImplEffect(o) ELSE UNCHANGED <<paused, counter, migrating>>
     /\ g' = GNext(g, ev)
     /\ viol' = viol \cup {<<m, Key(m, g, ev)>> : m \in Failing(g, ev)}
     /\ hist' = Append(hist, o @@ [exp |-> ev.res])
Next == Len(hist) < Depth /\ \E o \in Ops : Step(o)
Bound == Len(hist) <= Depth
EmitReplay == Emit => PrintT(<<"REPLAY", ToJson(hist')>>)
NoViolation == viol = {}
Refines == g.paused = paused /\ g.pending = migrating /\ g.counter = counter
=============================================================================
