------------------------------- MODULE Access -------------------------------
(***************************************************************************)
(* Property-level specification of role based access control               *)
(* (packages/access access_control + the attribute macros of               *)
(* packages/macros as used by examples/nft-access-control).                *)
(*                                                                         *)
(* Single source of truth for property C06.  Pure operators over a ghost   *)
(* record `g` so that exactly the same operators judge every transition of *)
(* the implementation-shaped model MC_Access (TLC, exhaustive) and every   *)
(* step recorded from the real contracts (Trace_Access).                   *)
(*                                                                         *)
(* An event `ev` is a record                                               *)
(*   [op  |-> [op, acct, role, arole, caller, auth],  the call as issued   *)
(*    res |-> "ok" | "fail",                                               *)
(*    obs |-> public getters after the call, for the whole small universe: *)
(*      admin            get_admin                  ("none" when unset)    *)
(*      radm[r]          get_role_admin(r)          (informative only)     *)
(*      has[r][a]        has_role(a, r)             (-1 for None)          *)
(*      count[r]         get_role_member_count(r)                          *)
(*      members[r]       <<get_role_member(r, i) : i = 0..count[r]-1>>     *)
(*      oob[r]           every probed index >= count[r] was refused        *)
(*      roles            get_existing_roles() ]                            *)
(*                                                                         *)
(* op.op is one of                                                         *)
(*   grant(acct, role, caller)   revoke(acct, role, caller)                *)
(*   renounce_role(role, caller) set_role_admin(role, arole)               *)
(*   transfer(acct) accept renounce_admin      (admin hand-over: plain ops,*)
(*                                   judged by RoleTransfer.tla / C07)     *)
(*   admin_fn                      #[only_admin]                           *)
(*   mint(caller)                  #[only_role(caller, "minter")]          *)
(*   multi_role_action(caller)     #[has_any_role(caller, [minter,burner])]*)
(*   multi_role_auth_action(caller)#[only_any_role(caller,[minter,burner])]*)
(*   burn(caller)                  #[has_role(from, "burner")]             *)
(*   stack_any_admin(caller)       #[only_any_role(..)] #[only_admin]      *)
(*   stack_role_admin(caller)      #[only_role(caller,"minter")] #[only_admin] *)
(*   stack_admin_any(caller)       #[only_admin] #[only_any_role(..)]      *)
(*        (two guards on one entry point: both must hold)                  *)
(* `auth` is the set of accounts whose authorization of exactly this       *)
(* invocation is attached to the call.                                     *)
(***************************************************************************)
EXTENDS Naturals, Integers, Sequences, FiniteSets

NoOne == "none"

(* ghost state ------------------------------------------------------------*)
\* admin   : who the property says is the contract admin (NoOne when renounced)
\* pend    : designated recipient of the running admin hand-over
\* gone    : the admin was renounced
\* radm    : set of <<role, admin role>> pairs (functional in the first component)
\* members : set of <<account, role>> pairs granted and not since revoked / renounced

\* configurations established by authorized set-up calls before the judged history starts:
\* grants in the order in which they are issued, and role-admin assignments
PresetGrants(p) ==
  CASE p = "chain" -> << <<"b", "burner">>, <<"c", "minter">>, <<"c", "r3">> >>
    [] p = "crowd" -> << <<"a", "minter">>, <<"b", "minter">>, <<"b", "burner">>, <<"c", "minter">>,
                         <<"c", "burner">>, <<"d", "minter">> >>
    [] OTHER       -> << >>
\* "chain": minter and burner administer each other (a 2-cycle), r3 administers itself
PresetRadm(p) ==
  CASE p = "chain" -> {<<"minter", "burner">>, <<"burner", "minter">>, <<"r3", "r3">>}
    [] OTHER       -> {}

SeqToSet(s) == {s[i] : i \in DOMAIN s}

GInit(adm, p) == [admin |-> adm, pend |-> NoOne, gone |-> FALSE,
                  radm |-> PresetRadm(p), members |-> SeqToSet(PresetGrants(p))]

RAdm(g, r) == IF \E p \in g.radm : p[1] = r THEN (CHOOSE p \in g.radm : p[1] = r)[2] ELSE NoOne
Mem(g, r) == {p[1] : p \in {q \in g.members : q[2] = r}}
Holds_(g, a, r) == <<a, r>> \in g.members

GNext(g, ev) ==
  LET o == ev.op IN
  IF ev.res # "ok" THEN g ELSE
  CASE o.op = "grant"          -> [g EXCEPT !.members = @ \cup {<<o.acct, o.role>>}]
    [] o.op = "revoke"         -> [g EXCEPT !.members = @ \ {<<o.acct, o.role>>}]
    [] o.op = "renounce_role"  -> [g EXCEPT !.members = @ \ {<<o.caller, o.role>>}]
    [] o.op = "set_role_admin" -> [g EXCEPT !.radm = {p \in @ : p[1] # o.role} \cup {<<o.role, o.arole>>}]
    [] o.op = "transfer"       -> [g EXCEPT !.pend = o.acct]
    [] o.op = "accept"         -> [g EXCEPT !.admin = g.pend, !.pend = NoOne]
    [] o.op = "renounce_admin" -> [g EXCEPT !.admin = NoOne, !.gone = TRUE]
    [] OTHER                   -> g

(* who may do what ----------------------------------------------------------*)
IsAdmin(g, x) == g.admin # NoOne /\ x = g.admin
\* x is the contract admin or holds the admin role of r
Authority(g, x, r) == IsAdmin(g, x) \/ (RAdm(g, r) # NoOne /\ Holds_(g, x, RAdm(g, r)))

\* the role(s) a macro-guarded entry point of the example is restricted to
GateRoles(k) ==
  CASE k = "mint" -> {"minter"}
    [] k = "burn" -> {"burner"}
    [] k \in {"multi_role_action", "multi_role_auth_action", "stack_any_admin", "stack_admin_any"} -> {"minter", "burner"}
    [] k = "stack_role_admin" -> {"minter"}
    [] OTHER -> {}
\* entry points that carry a role guard AND the admin guard
StackGated == {"stack_any_admin", "stack_role_admin", "stack_admin_any"}
RoleGated == {"mint", "burn", "multi_role_action", "multi_role_auth_action"} \cup StackGated
\* entry points that demand the contract admin
\* #[only_admin] alone, or stacked with a guard of another family (#[when_not_paused]) in either order
AdminOnly == {"admin_fn", "stack_np_admin", "stack_admin_np"}
AdminGated == {"set_role_admin", "transfer", "renounce_admin"} \cup AdminOnly \cup StackGated

(* the queryable membership ---------------------------------------------------*)
\* count, member-by-index, has_role (as a yes/no answer), the list of existing roles and the
\* refusal of out-of-range indices describe exactly the ghost set G.members:
\* member-by-index restricted to 0..count-1 is a bijection onto the members of the role
EnumOk(G, obs) ==
  /\ \A r \in DOMAIN obs.count :
       LET S == Mem(G, r)  L == obs.members[r] IN
       /\ obs.count[r] = Cardinality(S)
       /\ Len(L) = obs.count[r]
       /\ SeqToSet(L) = S                      \* with Len(L) = |S| : no gap, no duplicate
       /\ \A a \in DOMAIN obs.has[r] : (obs.has[r][a] >= 0) <=> (a \in S)
       /\ obs.oob[r]
  /\ LET RS == {p[2] : p \in G.members} IN
       /\ SeqToSet(obs.roles) = RS
       /\ Len(obs.roles) = Cardinality(RS)     \* no duplicates

\* the index answered by has_role is the member's position in the enumeration
IndexOk(G, obs) ==
  \A r \in DOMAIN obs.count : \A a \in DOMAIN obs.has[r] :
     LET i == obs.has[r][a]  L == obs.members[r] IN
     (a \in Mem(G, r) /\ i >= 0) => (i < Len(L) /\ L[i + 1] = a)

(* monitors -----------------------------------------------------------------*)
Monitors == {"C06_grant", "C06_revoke", "C06_renounce", "C06_set_role_admin", "C06_gate",
             "C06_admin_gone", "C06_enum", "C06_enum_index"}

PropOf(m) == "C06"

Ante(m, g, ev) ==
  LET o == ev.op  ok == ev.res = "ok" IN
  CASE m = "C06_grant"          -> o.op = "grant" /\ ok
    [] m = "C06_revoke"         -> o.op = "revoke" /\ ok
    [] m = "C06_renounce"       -> o.op = "renounce_role" /\ ok
    [] m = "C06_set_role_admin" -> o.op = "set_role_admin" /\ ok
    [] m = "C06_gate"           -> o.op \in RoleGated \cup AdminOnly /\ ok
    [] m = "C06_admin_gone"     -> g.gone
    [] m = "C06_enum"           -> TRUE
    [] m = "C06_enum_index"     -> TRUE

Cons(m, g, ev) ==
  LET o == ev.op  ok == ev.res = "ok"  auth == o.auth IN
  \* a role is granted or revoked only in a call authorized by the admin or by a holder of the
  \* role's admin role
  CASE m = "C06_grant"          -> \E x \in auth : Authority(g, x, o.role)
    [] m = "C06_revoke"         -> \E x \in auth : Authority(g, x, o.role)
  \* ... or renounced by its own authorized holder
    [] m = "C06_renounce"       -> o.caller \in auth
    [] m = "C06_set_role_admin" -> g.admin # NoOne /\ g.admin \in auth
  \* a restricted function executes only with the principal's authorization, the principal
  \* still holding the position
    [] m = "C06_gate"           -> IF o.op \in AdminOnly THEN g.admin # NoOne /\ g.admin \in auth
                                   ELSE /\ o.caller \in auth
                                        /\ \E r \in GateRoles(o.op) : Holds_(g, o.caller, r)
                                        /\ o.op \in StackGated => (g.admin # NoOne /\ g.admin \in auth)
  \* after the admin is renounced nobody passes an admin check and no admin reappears
    [] m = "C06_admin_gone"     -> (o.op \in AdminGated => ~ok) /\ ev.obs.admin = NoOne
    [] m = "C06_enum"           -> EnumOk(GNext(g, ev), ev.obs)
    [] m = "C06_enum_index"     -> IndexOk(GNext(g, ev), ev.obs)

Holds(m, g, ev) == Ante(m, g, ev) => Cons(m, g, ev)

\* classification used to match entries of known_findings.json
Key(m, g, ev) == "other"

Failing(g, ev) == {m \in Monitors : ~Holds(m, g, ev)}
=============================================================================
