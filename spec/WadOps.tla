------------------------------- MODULE WadOps -------------------------------
(***************************************************************************)
(* Property-level specification of the parts of the 18-decimal fixed-point *)
(* type packages/contract-utils/src/math/wad.rs that C12 does not cover.   *)
(* Source of truth for X03:                                                *)
(*                                                                         *)
(*   Each Wad conversion and arithmetic operation returns exactly the      *)
(*   mathematically defined value - scaling by 10^|SD-d| exact when        *)
(*   scaling up and truncated toward zero when scaling down; sums,         *)
(*   differences, integer products / quotients, abs, neg, min, max as      *)
(*   integers of the raw representation; Wad*Wad = trunc(a*b/10^SD),       *)
(*   Wad/Wad = trunc(a*10^SD/b) - whenever it returns at all, and fails    *)
(*   (panic / None) only when that value does not fit the raw type, the    *)
(*   divisor is zero, the decimals are out of range (10^|SD-d| is not      *)
(*   representable: the call must then fail) or - for the operators `*`    *)
(*   and `/` between two Wads only, which evaluate the documented formula  *)
(*   in the raw type - the intermediate product does not fit.  checked_pow *)
(*   returns exactly what right-to-left square-and-multiply with           *)
(*   truncating Wad multiplication (x*y/10^SD toward zero) yields, and     *)
(*   None exactly when one of those multiplications does not fit.          *)
(*                                                                         *)
(* Every statement is made by definition with multiplications and          *)
(* comparisons over BigInt values - no division.  The module is            *)
(* parametrised by the scale (SD decimals) and the width of the raw type   *)
(* (WB bits) so that MC_WadOps can evaluate the very same judge            *)
(* exhaustively on a mini-Wad; Trace_WadOps uses SD = 18, WB = 128.        *)
(*                                                                         *)
(* Event: [fn, a, b, dec, res, q, how, w]                                  *)
(*   fn   : operation (Fns below);  a, b, q : logged numbers               *)
(*          [n |-> 0|1, m |-> limbs base 2^15]; b = second operand, or the *)
(*          exponent of cpow;  dec : token / price decimals (0 otherwise)  *)
(*   res  : "ok" | "fail";  q : the returned raw value when ok             *)
(*   how  : "val" | "none" | "panic"  (information only)                   *)
(*   w    : cpow only - witnesses: the values of the successive truncating *)
(*          multiplications, computed independently by the harness; each   *)
(*          one is verified here by definition before it is used           *)
(***************************************************************************)
EXTENDS Integers, Sequences
CONSTANTS SD,      \* decimals of the fixed-point scale
          WB       \* width in bits of the raw (signed) representation
INSTANCE BigInt WITH Base <- 32768

LB == 15
RECURSIVE P2(_)
P2(k) == IF k = 0 THEN 1 ELSE 2 * P2(k - 1)
\* a * 2^k by limb shifting (no general multiplication)
Shl(a, k) == IF a.mag = <<>> THEN Zero
             ELSE Mk(a.neg, Zeros(k \div LB) \o MagMulLimbFrom(a.mag, P2(k % LB), 1, 0))
PowTwo(k) == Shl(One, k)
MinV == BNeg(PowTwo(WB - 1))
MaxV == BSub(PowTwo(WB - 1), One)
Fits(a) == BLe(MinV, a) /\ BLe(a, MaxV)

\* powers of ten as constants (a table evaluated once)
RECURSIVE MagP10(_)
MagP10(k) == IF k = 0 THEN <<1>> ELSE MagMulLimbFrom(MagP10(k - 1), 10, 1, 0)
P10Max == SD + 42
P10Tab == [k \in 0..(P10Max + 1) |-> Mk(FALSE, MagP10(k))]
Scale == P10Tab[SD]
\* the largest power of ten of the raw type (the bound of the library's pow10: 38 for i128)
PMax == CHOOSE k \in 0..P10Max : BLe(P10Tab[k], MaxV) /\ ~BLe(P10Tab[k + 1], MaxV)

IsZero(a) == BSign(a) = 0
Only(S) == CHOOSE r \in S : TRUE

\* q is p/d truncated toward zero (d # 0):  p = q*d + r, |r| < |d|, r = 0 or sign r = sign p
ExactR(p, r, d) == BLt(BAbs(r), BAbs(d)) /\ (IsZero(r) \/ BSign(r) = BSign(p))
ExactT(p, q, d) == \E r \in {BSub(p, BMul(q, d))} : ExactR(p, r, d)
\* trunc(p/d) fits (d # 0):  (MIN-1)*d < p < (MAX+1)*d for d > 0, reversed for d < 0
QuotFitsT(p, d) ==
  \E hd \in {Shl(d, WB - 1)} :
    IF BSign(d) > 0 THEN BLt(BSub(BNeg(hd), d), p) /\ BLt(p, hd)
    ELSE BLt(hd, p) /\ BLt(p, BSub(BNeg(hd), d))

(* operations ----------------------------------------------------------------------------------*)
ConvFns == {"from_integer", "to_integer", "from_token", "from_price", "to_token"}
SumFns  == {"cadd", "add", "csub", "sub"}
MulIntFns == {"cmul_int", "mul_int", "int_mul"}
DivIntFns == {"cdiv_int", "div_int"}
UnFns   == {"abs", "neg"}
OrdFns  == {"min", "max"}
WadFns  == {"mul", "div"}                 \* the operators Wad * Wad and Wad / Wad
Fns == ConvFns \cup SumFns \cup MulIntFns \cup DivIntFns \cup UnFns \cup OrdFns \cup WadFns \cup {"cpow"}
CheckedFns == {"cadd", "csub", "cmul_int", "cdiv_int", "cpow"}

\* direction and exponent of a conversion: "up" multiplies by 10^k, "down" divides by 10^k
Shape(fn, dec) ==
  CASE fn = "from_integer" -> [kind |-> "up", k |-> SD]
    [] fn = "to_integer"   -> [kind |-> "down", k |-> SD]
    [] fn \in {"from_token", "from_price"} ->
         IF dec = SD THEN [kind |-> "id", k |-> 0]
         ELSE IF dec < SD THEN [kind |-> "up", k |-> SD - dec] ELSE [kind |-> "down", k |-> dec - SD]
    [] fn = "to_token" ->
         IF dec = SD THEN [kind |-> "id", k |-> 0]
         ELSE IF dec < SD THEN [kind |-> "down", k |-> SD - dec] ELSE [kind |-> "up", k |-> dec - SD]
    [] fn \in OrdFns -> [kind |-> "ord", k |-> 0]
    [] OTHER -> [kind |-> "", k |-> 0]

\* every operation but cpow is "trunc(p / dv)" for a numerator p and a divisor dv (k <= PMax)
PD(fn, kind, k, a, b) ==
  CASE kind = "up"       -> [p |-> BMul(a, P10Tab[k]), dv |-> One]
    [] kind = "down"     -> [p |-> a, dv |-> P10Tab[k]]
    [] kind = "id"       -> [p |-> a, dv |-> One]
    [] fn \in {"cadd", "add"} -> [p |-> BAdd(a, b), dv |-> One]
    [] fn \in {"csub", "sub"} -> [p |-> BSub(a, b), dv |-> One]
    [] fn \in MulIntFns  -> [p |-> BMul(a, b), dv |-> One]
    [] fn \in DivIntFns  -> [p |-> a, dv |-> b]
    [] fn = "abs"        -> [p |-> BAbs(a), dv |-> One]
    [] fn = "neg"        -> [p |-> BNeg(a), dv |-> One]
    [] fn = "min"        -> [p |-> IF BLe(a, b) THEN a ELSE b, dv |-> One]
    [] fn = "max"        -> [p |-> IF BLe(b, a) THEN a ELSE b, dv |-> One]
    [] fn = "mul"        -> [p |-> BMul(a, b), dv |-> Scale]
    [] fn = "div"        -> [p |-> BMul(a, Scale), dv |-> b]

Monitors == {"X03_exact", "X03_fail_only", "X03_decimals", "X03_pow"}
PropOf(m) == "X03"
Key(m, ev) == "other"

\* operations whose value involves a genuine division: the class records how truncation acted
Divides(fn, kind) == kind = "down" \/ fn \in DivIntFns \/ fn \in WadFns
KindTag(fn, kind, a, b) ==
  IF kind \in {"up", "down", "id"} THEN kind \o "_"
  ELSE IF kind = "ord" THEN (IF BLt(a, b) THEN "lt_" ELSE IF BEq(a, b) THEN "eq_" ELSE "gt_")
  ELSE ""

(* ordinary operations ---------------------------------------------------------------------------*)
\* (bound variables of set constructors are values, so nothing big is evaluated twice;
\*  TLC re-evaluates LET definitions at every use)
J4(fn, kind, ok, a, b, q, p, dv, dz, vf, pf, r) ==
  LET ex  == ok /\ ~dz /\ Fits(q) /\ ExactR(p, r, dv)
      out == IF dz THEN "zero" ELSE IF ~vf THEN "over" ELSE IF ~pf THEN "phantom"
             ELSE IF ~Divides(fn, kind) THEN "fits"
             ELSE IF ~ok \/ IsZero(r) THEN "fits_x"
             ELSE IF BSign(p) * BSign(dv) > 0 THEN "fits_p" ELSE "fits_n" IN
  [fail |-> \* a returned value is exactly the defined value and fits the raw type
            (IF ok /\ ~ex THEN {"X03_exact"} ELSE {})
            \* a failure only for a zero divisor, a value that does not fit, or (Wad*Wad, Wad/Wad
            \* operators) an intermediate product that does not fit
            \cup (IF ~ok /\ ~(dz \/ ~vf \/ ~pf) THEN {"X03_fail_only"} ELSE {}),
   cls  |-> fn \o "_" \o KindTag(fn, kind, a, b) \o out,
   ante |-> IF ok THEN {"X03_exact"} ELSE {"X03_fail_only"},
   badw |-> FALSE]
J3(fn, kind, ok, a, b, q, p, dv) ==
  LET dz == IsZero(dv) IN
  Only({J4(fn, kind, ok, a, b, q, p, dv, dz, vf, pf, r) :
          vf \in {IF dz THEN FALSE ELSE QuotFitsT(p, dv)},
          pf \in {(fn \in WadFns) => Fits(p)},
          r  \in {IF ok /\ ~dz THEN BSub(p, BMul(q, dv)) ELSE Zero}})

\* decimals for which 10^|SD - dec| is not a value of the raw type: the call must fail
\* (were it to return, then with the defined value: 0 when scaling down, a * 10^k fits only for a = 0)
JRange(fn, kind, ok, a, q) ==
  [fail |-> (IF ok THEN {"X03_decimals"} ELSE {})
            \cup (IF ok /\ ~(IsZero(q) /\ (kind = "up" => IsZero(a))) THEN {"X03_exact"} ELSE {}),
   cls  |-> fn \o "_range",
   ante |-> {"X03_decimals"} \cup (IF ok THEN {"X03_exact"} ELSE {"X03_fail_only"}),
   badw |-> FALSE]

(* checked_pow -------------------------------------------------------------------------------------*)
\* bits of the exponent, least significant first, without leading zeros
RECURSIVE LimbBits(_, _)
LimbBits(v, n) == IF n = 0 THEN <<>> ELSE <<v % 2>> \o LimbBits(v \div 2, n - 1)
RECURSIVE MagBits(_)
MagBits(m) == IF m = <<>> THEN <<>> ELSE LimbBits(m[1], LB) \o MagBits(Tail(m))
Bits(b) == Trim(MagBits(b.mag))

\* one truncating Wad multiplication x*y/Scale: "over" when it does not fit; otherwise the next
\* witness must be exactly that value ("badw": a harness error, never a verdict on the code)
Bad == [st |-> "badw", v |-> Zero]
MulStep(x, y, ws) ==
  Only({IF ~QuotFitsT(p, Scale) THEN [st |-> "over", v |-> Zero]
        ELSE IF ws = <<>> THEN Bad
        ELSE Only({IF Fits(w) /\ ExactT(p, w, Scale) THEN [st |-> "ok", v |-> w] ELSE Bad :
                     w \in {FromLog(Head(ws))}}) :
          p \in {BMul(x, y)}})

\* right-to-left square-and-multiply: for each bit (lowest first) multiply the result by the base
\* when the bit is set, then square the base when higher bits remain
RECURSIVE PowRun(_, _, _, _)
PowRun(bits, result, base, ws) ==
  IF bits = <<>> THEN [st |-> "ok", v |-> result]
  ELSE Only({
         IF m.st # "ok" THEN m
         ELSE LET ws1 == IF Head(bits) = 1 THEN Tail(ws) ELSE ws IN
              IF Tail(bits) = <<>> THEN m
              ELSE Only({IF s.st # "ok" THEN s ELSE PowRun(Tail(bits), m.v, s.v, Tail(ws1)) :
                           s \in {MulStep(base, base, ws1)}}) :
         m \in {IF Head(bits) = 1 THEN MulStep(result, base, ws) ELSE [st |-> "ok", v |-> result]}})

JPow(ok, a, q, bits, ws) ==
  Only({[fail |-> IF (run.st = "ok" /\ ~(ok /\ BEq(q, run.v))) \/ (run.st = "over" /\ ok)
                  THEN {"X03_pow"} ELSE {},
         cls  |-> "cpow_" \o (IF bits = <<>> THEN "e0" ELSE IF bits = <<1>> THEN "e1"
                              ELSE IF IsZero(a) THEN "b0" ELSE IF BEq(a, Scale) THEN "b1"
                              ELSE IF run.st = "ok" THEN "gen_fits" ELSE "gen_over"),
         ante |-> {"X03_pow"},
         badw |-> run.st = "badw"] :
          run \in {PowRun(bits, Scale, a, ws)}})

(* the judgement of one recorded case --------------------------------------------------------------*)
J2(ev, a, b, q) ==
  LET fn == ev.fn  sh == Shape(ev.fn, ev.dec)  ok == ev.res = "ok" IN
  IF fn = "cpow" THEN JPow(ok, a, q, Bits(b), ev.w)
  ELSE IF sh.kind \in {"up", "down"} /\ sh.k > PMax THEN JRange(fn, sh.kind, ok, a, q)
  ELSE Only({J3(fn, sh.kind, ok, a, b, q, pd.p, pd.dv) : pd \in {PD(fn, sh.kind, sh.k, a, b)}})
Judge(ev) ==
  Only({J2(ev, a, b, q) : a \in {FromLog(ev.a)}, b \in {FromLog(ev.b)}, q \in {FromLog(ev.q)}})
Failing(ev) == Judge(ev).fail

\* information only: a checked_* function that panicked instead of returning None
Info(ev) == IF ev.fn \in CheckedFns /\ ev.how = "panic" THEN {"X03_info_checked_panic"} ELSE {}
InfoKeys == {"X03_info_checked_panic"}

\* the classes of conforming cases (MC_WadOps: exactly these occur at the mini scale; the
\* full-scale traces must cover every one of them: lib/models/WadOps.py, need_cnt)
Tr == {"fits_x", "fits_p", "fits_n"}
ReachableClasses ==
  {"from_integer_up_fits", "from_integer_up_over"}
  \cup {"to_integer_down_" \o t : t \in Tr}
  \cup {f \o "_" \o c : f \in {"from_token", "from_price"},
                        c \in {"up_fits", "up_over", "id_fits", "range"} \cup {"down_" \o t : t \in Tr}}
  \cup {"to_token_" \o c : c \in {"up_fits", "up_over", "id_fits", "range"} \cup {"down_" \o t : t \in Tr}}
  \cup {f \o "_" \o c : f \in SumFns \cup MulIntFns \cup UnFns, c \in {"fits", "over"}}
  \cup {f \o "_" \o c : f \in DivIntFns, c \in {"zero", "over"} \cup Tr}
  \cup {f \o "_" \o c \o "_fits" : f \in OrdFns, c \in {"lt", "eq", "gt"}}
  \cup {"mul_" \o c : c \in {"over", "phantom"} \cup Tr}
  \cup {"div_" \o c : c \in {"zero", "over", "phantom"} \cup Tr}
  \cup {"cpow_" \o c : c \in {"e0", "e1", "b0", "b1", "gen_fits", "gen_over"}}
=============================================================================
