----------------------------- MODULE Verifiers -----------------------------
(***************************************************************************)
(* Property-level specification of the signature verifiers                 *)
(* (packages/accounts/src/verifiers: webauthn, ed25519, utils/base64_url;  *)
(* examples/multisig-smart-account/{webauthn,ed25519}-verifier).           *)
(* Single source of truth for C18.  There is no ghost state: every call is *)
(* judged on its own.  Hashes and signatures are uninterpreted: what is    *)
(* described is HOW an assertion was produced relative to a genuine one    *)
(* (payload P0, key pair 1, authenticator data AD, client data CD,         *)
(* signature by key 1 over AD || sha256(CD)); a signature verifies iff it  *)
(* was made by the secret key of the GIVEN public key over exactly the     *)
(* bytes handed to the verifier.                                           *)
(*                                                                         *)
(* Event: [op |-> o, res |-> "ok" | "fail", out |-> <<bytes>>]             *)
(*   res = "ok" iff verify returned true (encoder: returned normally).     *)
(* o.op = "webauthn":                                                      *)
(*   type    "get" | "create" | "upper" | "space" | "prefix" | "empty"     *)
(*           | "missing"      the "type" member of the client data         *)
(*   chal    "right" (url-safe unpadded base64 of P0) | "wrong" (one       *)
(*           character replaced) | "other_payload" (of P0 with one bit     *)
(*           flipped) | "padded" ('=' appended) | "std_alphabet" (+ / for  *)
(*           - _) | "truncated" | "extended" | "empty" | "missing"         *)
(*   flags   subset of {"UP","UV","BE","BS"}; xbits: other bits of the     *)
(*           flag byte (mask 0xE2)                                         *)
(*   alen    length of the authenticator data; clen: length of the client  *)
(*           data (0 = natural length of the layout, far below the bound)  *)
(*   sig     "right" | "altered_auth" (made over AD with one bit flipped)  *)
(*           | "altered_client" | "other_key" (by key pair 2) | "garbage"  *)
(*           | "bitflip" | "no_hash" (over AD || CD) | "payload_only"      *)
(*   key     "right" | "cred" (right key followed by a credential id, the  *)
(*           documented key_data format) | "other" (public key 2)          *)
(*           | "bitflip" | "short" (64 bytes)                              *)
(*   payload "right" (P0) | "other" (one bit flipped) | "short" (31 bytes) *)
(*           | "long" (P0 followed by one byte: outside the property's     *)
(*           domain of 32-byte payloads, recorded but not judged)          *)
(*   layout  well-formed renderings of the same client data                *)
(* o.op = "ed25519": payload "right"|"other"|"short"|"long", key "right"   *)
(*   |"other"|"bitflip", sig "right"|"other_key"|"bitflip"|"over_other".   *)
(* o.op = "b64": inp = the input bytes; out = the bytes written.           *)
(***************************************************************************)
EXTENDS Integers, Sequences, FiniteSets, TLC

AuthMin == 37          \* rpIdHash (32) + flags (1) + signCount (4)
ClientMax == 1024

(* WebAuthn ---------------------------------------------------------------*)
FlagsOK(F) == "UP" \in F /\ "UV" \in F /\ ~("BS" \in F /\ "BE" \notin F)

\* the signature verifies under the key that is handed to the verifier
SigVerifies(o) == \/ o.sig = "right" /\ o.key \in {"right", "cred"}
                  \/ o.sig = "other_key" /\ o.key = "other"

WAccept(o) == /\ o.type = "get"
              /\ o.chal = "right" /\ o.payload = "right"
              /\ FlagsOK(o.flags)
              /\ o.alen >= AuthMin /\ o.clen <= ClientMax
              /\ SigVerifies(o)

\* first reason why an assertion is not acceptable (classification only)
WhyNot(o) == IF o.type # "get" THEN "type"
             ELSE IF o.chal # "right" THEN "challenge"
             ELSE IF o.payload # "right" THEN "payload"
             ELSE IF "UP" \notin o.flags THEN "up"
             ELSE IF "UV" \notin o.flags THEN "uv"
             ELSE IF ~FlagsOK(o.flags) THEN "backup_state"
             ELSE IF o.alen < AuthMin THEN "auth_len"
             ELSE IF o.clen > ClientMax THEN "client_len"
             ELSE IF ~SigVerifies(o) THEN "signature"
             ELSE "genuine"

WInDomain(o) == o.payload # "long"

(* Ed25519 ----------------------------------------------------------------*)
EAccept(o) == /\ o.payload = "right"
              /\ \/ o.sig = "right" /\ o.key = "right"
                 \/ o.sig = "other_key" /\ o.key = "other"

(* base64url, RFC 4648 section 5, without padding -------------------------*)
\* written arithmetically: the input is cut into groups of 3 bytes = 24 bits (missing bytes of
\* the last group count as 0), every group into 4 digits of 6 bits (most significant first);
\* n bytes give ceil(4n/3) digits; digit values 0..63 map to A-Z a-z 0-9 - _
Pow64(k) == IF k = 0 THEN 1 ELSE IF k = 1 THEN 64 ELSE IF k = 2 THEN 4096 ELSE 262144
Alpha(s) == IF s < 26 THEN 65 + s           \* 'A' + s
            ELSE IF s < 52 THEN 71 + s      \* 'a' + (s - 26)
            ELSE IF s < 62 THEN s - 4       \* '0' + (s - 52)
            ELSE IF s = 62 THEN 45          \* '-'
            ELSE 95                         \* '_'
ByteAt(b, i) == IF i <= Len(b) THEN b[i] ELSE 0
B64Len(n) == (4 * n + 2) \div 3
B64(b) == [k \in 1..B64Len(Len(b)) |->
             LET grp == (k - 1) \div 4
                 j   == (k - 1) % 4
                 v   == ByteAt(b, 3 * grp + 1) * 65536 + ByteAt(b, 3 * grp + 2) * 256
                        + ByteAt(b, 3 * grp + 3)
             IN Alpha((v \div Pow64(3 - j)) % 64)]

(* monitors ---------------------------------------------------------------*)
Monitors == {"C18_webauthn_sound", "C18_webauthn_complete", "C18_ed25519_iff", "C18_b64", "C18_b64_len"}
PropOf(m) == "C18"

Ante(m, ev) ==
  LET o == ev.op IN
  CASE m = "C18_webauthn_sound"    -> o.op = "webauthn" /\ WInDomain(o) /\ ev.res = "ok"
    \* genuine assertions as an authenticator produces them (no reserved/extension flag bits)
    [] m = "C18_webauthn_complete" -> o.op = "webauthn" /\ WInDomain(o) /\ WAccept(o) /\ o.xbits = 0
    [] m = "C18_ed25519_iff"       -> o.op = "ed25519"
    [] m = "C18_b64"               -> o.op = "b64"
    [] m = "C18_b64_len"           -> o.op = "b64" /\ ev.res = "ok"

Cons(m, ev) ==
  LET o == ev.op IN
  CASE m = "C18_webauthn_sound"    -> WAccept(o)
    [] m = "C18_webauthn_complete" -> ev.res = "ok"
    [] m = "C18_ed25519_iff"       -> (ev.res = "ok") <=> EAccept(o)
    [] m = "C18_b64"               -> ev.res = "ok" /\ ev.out = B64(o.inp)
    [] m = "C18_b64_len"           -> Len(ev.out) = B64Len(Len(o.inp))

Holds(m, ev) == Ante(m, ev) => Cons(m, ev)
Failing(ev) == {m \in Monitors : ~Holds(m, ev)}

Key(m, ev) ==
  LET o == ev.op IN
  CASE m = "C18_webauthn_sound"    -> "accepted_" \o WhyNot(o)
    [] m = "C18_webauthn_complete" -> "genuine_rejected"
    [] m = "C18_ed25519_iff"       -> IF ev.res = "ok" THEN "accepted_not_genuine" ELSE "genuine_rejected"
    [] OTHER                       -> "other"

(* coverage classes (counted by the trace specification, demanded by need_cnt) ---------------*)
WTypes    == {"get", "create", "upper", "space", "prefix", "empty", "missing"}
WChals    == {"right", "wrong", "other_payload", "padded", "std_alphabet", "truncated", "extended",
              "empty", "missing"}
WSigs     == {"right", "altered_auth", "altered_client", "other_key", "garbage", "bitflip", "no_hash",
              "payload_only"}
WKeys     == {"right", "cred", "other", "bitflip", "short"}
WPayloads == {"right", "other", "short", "long"}
WLayouts  == {"compact", "spaced", "reordered", "nested"}
EPayloads == {"right", "other", "short", "long"}
EKeys     == {"right", "other", "bitflip"}
ESigs     == {"right", "other_key", "bitflip", "over_other"}
FlagNames == {"UP", "UV", "BE", "BS"}

Gen == [type |-> "get", chal |-> "right", sig |-> "right", key |-> "right", payload |-> "right"]
StrFields == {"type", "chal", "sig", "key", "payload"}
FlagNum(F) == (IF "UP" \in F THEN 1 ELSE 0) + (IF "UV" \in F THEN 2 ELSE 0)
              + (IF "BE" \in F THEN 4 ELSE 0) + (IF "BS" \in F THEN 8 ELSE 0)

\* the fields in which an assertion differs from a plain genuine one
WDiff(o) == {f \in StrFields : o[f] # Gen[f]}
            \cup (IF ~FlagsOK(o.flags) THEN {"flags"} ELSE {})
            \cup (IF o.alen < AuthMin THEN {"alen"} ELSE {})
            \cup (IF o.clen > ClientMax THEN {"clen"} ELSE {})

WClasses(o) ==
  LET d == WDiff(o) IN
       \* every combination of the four flag bits on an otherwise genuine assertion
       (IF d \subseteq {"flags"} /\ o.xbits = 0 THEN {"C18_cls_flags_" \o ToString(FlagNum(o.flags))} ELSE {})
       \* every corruption kind as the only change
  \cup {"C18_cls_" \o f \o "_" \o o[f] : f \in {x \in StrFields : d = {x}}}
       \* lengths at and one past each bound
  \cup (IF d = {"alen"} /\ o.alen = AuthMin - 1 THEN {"C18_cls_alen_below"} ELSE {})
  \cup (IF d = {} /\ o.alen = AuthMin THEN {"C18_cls_alen_at"} ELSE {})
  \cup (IF d = {} /\ o.alen > AuthMin THEN {"C18_cls_alen_above"} ELSE {})
  \cup (IF d = {} /\ o.clen = ClientMax THEN {"C18_cls_clen_at"} ELSE {})
  \cup (IF d = {"clen"} /\ o.clen = ClientMax + 1 THEN {"C18_cls_clen_above"} ELSE {})
  \cup (IF d = {} THEN {"C18_cls_layout_" \o o.layout} ELSE {})
  \cup (IF d = {} /\ o.xbits # 0 THEN {"C18_cls_xbits"} ELSE {})

EGen == [payload |-> "right", key |-> "right", sig |-> "right"]
EFields == {"payload", "key", "sig"}
EClasses(o) ==
  LET d == {f \in EFields : o[f] # EGen[f]} IN
  (IF d = {} THEN {"C18_cls_ed_genuine"} ELSE {})
  \cup {"C18_cls_ed_" \o f \o "_" \o o[f] : f \in {x \in EFields : d = {x}}}

ClassesOf(ev) ==
  LET o == ev.op IN
  CASE o.op = "webauthn" -> WClasses(o) \cup
         (IF o.payload = "long" THEN {"C18_info_long_payload_" \o ev.res} ELSE {})
    [] o.op = "ed25519"  -> EClasses(o)
    [] o.op = "b64"      -> {"C18_cls_b64_mod" \o ToString(Len(o.inp) % 3)}
    [] OTHER             -> {}

AllClasses ==
  {"C18_cls_flags_" \o ToString(n) : n \in 0..15}
  \cup {"C18_cls_type_" \o v : v \in WTypes \ {"get"}}
  \cup {"C18_cls_chal_" \o v : v \in WChals \ {"right"}}
  \cup {"C18_cls_sig_" \o v : v \in WSigs \ {"right"}}
  \cup {"C18_cls_key_" \o v : v \in WKeys \ {"right"}}
  \cup {"C18_cls_payload_" \o v : v \in WPayloads \ {"right"}}
  \cup {"C18_cls_alen_below", "C18_cls_alen_at", "C18_cls_alen_above", "C18_cls_clen_at",
        "C18_cls_clen_above", "C18_cls_xbits", "C18_cls_ed_genuine"}
  \cup {"C18_cls_layout_" \o v : v \in WLayouts}
  \cup {"C18_cls_ed_payload_" \o v : v \in EPayloads \ {"right"}}
  \cup {"C18_cls_ed_key_" \o v : v \in EKeys \ {"right"}}
  \cup {"C18_cls_ed_sig_" \o v : v \in ESigs \ {"right"}}
  \cup {"C18_cls_b64_mod0", "C18_cls_b64_mod1", "C18_cls_b64_mod2"}
  \cup {"C18_info_long_payload_ok", "C18_info_long_payload_fail"}
=============================================================================
