---------------------------- MODULE MC_Fungible ----------------------------
(***************************************************************************)
(* Implementation-shaped model of packages/tokens/src/fungible (Base,      *)
(* burnable, allowlist, blocklist, capped) and of the example wiring       *)
(* (fungible-pausable's #[when_not_paused] entry points, the list          *)
(* managers guarded by #[only_role]), on top of the Soroban temporary      *)
(* storage rules for allowance entries.  One configuration per flavour.    *)
(***************************************************************************)
EXTENDS Fungible, TLC, Json

CONSTANTS Flavour,       \* "base" | "allowlist" | "blocklist" | "pausable" | "capped"
          MAXI,          \* largest representable amount in model units (i128::MAX)
          Cap,           \* supply cap of the capped flavour
          Amts,          \* amounts tried by transfers, burns and spends
          MintAmts,
          ApprAmts, DUs, \* approved amounts and lifetimes (until - now)
          MinTempTtl, MaxTtl, Now0, Depth,
          EmitEvery,     \* 0: emit nothing; k: emit about one REPLAY line per k transitions
          ThinBlock,     \* TRUE: the blocklist flavour is the thin BlockList + burnable contract (burns exposed)
          CapAmts,       \* caps tried by set_cap (thin capped flavour)
          WithNeg,       \* TRUE: also try -1 for amounts and lifetimes (cfg files cannot write -1)
          BUG            \* "" or the name of a seeded model bug (non-vacuity configurations)

VARIABLES bal, supply, al, paused, listed, cap, now, g, viol, hist
vars == <<bal, supply, al, paused, listed, cap, now, g, viol, hist>>
View == <<bal, supply, al, paused, listed, cap, now, g, viol, Len(hist)>>

Neg == IF WithNeg THEN {-1} ELSE {}
AmtsN == Amts \cup Neg
MintN == MintAmts \cup Neg
ApprN == ApprAmts \cup Neg
DUsN == DUs \cup Neg

NoBurn == IF ThinBlock THEN {} ELSE {"blocklist", "capped"}   \* flavours exposing no burn entry point

Acct == {"a", "b", "c"}
Owner == "a"             \* pausable: owner;  lists: admin (initially allowed)
Manager == "m"           \* holder of the "manager" role of the list examples
Absent == [amt |-> 0, until |-> 0, lu |-> -1]

(* Soroban temporary storage -------------------------------------------------*)
Live(p, t) == p.lu >= t
TempSet(p, amt, until, t) == IF Live(p, t) THEN [p EXCEPT !.amt = amt, !.until = until]
                             ELSE [amt |-> amt, until |-> until, lu |-> t + MinTempTtl - 1]
Extend(p, th, ext, t) == IF t + ext > p.lu /\ p.lu - t <= th THEN [p EXCEPT !.lu = t + ext] ELSE p

\* Base::allowance_data
AData(o, s, t) == LET p == al[o][s] IN
                  IF Live(p, t) /\ p.until >= t THEN [amt |-> p.amt, until |-> p.until]
                  ELSE [amt |-> 0, until |-> 0]

\* Base::set_allowance: result is <<ok, entry>>
SetAllowance(o, s, amt, until, t) ==
  IF amt < 0 THEN <<FALSE, al[o][s]>>
  ELSE IF until > t + MaxTtl - 1 \/ (amt > 0 /\ until < t) THEN <<FALSE, al[o][s]>>
  ELSE LET p == TempSet(al[o][s], amt, until, t) IN
       <<TRUE, IF amt > 0 THEN Extend(p, until - t, until - t, t) ELSE p>>

\* Base::spend_allowance: <<ok, entry>>
Spend(o, s, amt, t) ==
  IF amt < 0 THEN <<FALSE, al[o][s]>>
  ELSE LET d == AData(o, s, t) IN
       IF d.amt < amt THEN <<FALSE, al[o][s]>>
       ELSE IF amt > 0 THEN SetAllowance(o, s, d.amt - amt, d.until, t)
       ELSE <<TRUE, al[o][s]>>

(* gates in front of the base functions ---------------------------------------*)
ListOk(S) == CASE Flavour = "allowlist" -> \A a \in S : listed[a]
               [] Flavour = "blocklist" -> \A a \in S : ~listed[a]
               [] OTHER -> TRUE
GateOk(o) ==
  /\ (Flavour = "pausable" /\ o.op \in {"transfer", "transfer_from", "burn", "burn_from", "mint"}) =>
        (~paused \/ (BUG = "burn_not_pausable" /\ o.op = "burn"))
  /\ CASE o.op \in Moves   -> ListOk({o.from, o.to})
       [] o.op = "approve" -> ListOk({o.from})
       [] o.op \in Burns   -> (BUG = "burn_not_listed" \/ ListOk({o.from}))
       [] OTHER            -> TRUE

(* Base::update -----------------------------------------------------------------*)
UpdOk(from, to, amt) ==
  /\ amt >= 0
  /\ (from # None => bal[from] >= (IF BUG = "balance_lt" THEN amt - 1 ELSE amt))
  /\ (from = None => supply + amt <= MAXI)
Upd(from, to, amt) ==
  LET b1 == IF from # None THEN [bal EXCEPT ![from] = @ - amt] ELSE bal
      \* BUG "self_transfer": recipient balance read before the sender's was written
      b2 == IF to # None
            THEN [b1 EXCEPT ![to] = (IF BUG = "self_transfer" THEN bal[to] ELSE @) + amt] ELSE b1
  IN /\ bal' = b2
     /\ supply' = CASE from = None -> supply + amt
                    [] to = None   -> supply - amt
                    [] OTHER       -> supply

(* entry points: ok-condition in the code's order of checks, then effect ----------*)
ImplOk(o, t) ==
  CASE o.op = "transfer" ->
         GateOk(o) /\ o.from \in o.auth /\ UpdOk(o.from, o.to, o.amt)
    [] o.op = "transfer_from" ->
         /\ GateOk(o) /\ o.sp \in o.auth /\ Spend(o.from, o.sp, o.amt, t)[1]
         /\ UpdOk(o.from, o.to, o.amt)
    [] o.op = "approve" ->
         GateOk(o) /\ o.from \in o.auth /\ SetAllowance(o.from, o.sp, o.amt, o.until, t)[1]
    [] o.op = "burn" ->
         Flavour \notin NoBurn /\ GateOk(o) /\ o.from \in o.auth /\ UpdOk(o.from, None, o.amt)
    [] o.op = "burn_from" ->
         /\ Flavour \notin NoBurn /\ GateOk(o) /\ o.sp \in o.auth
         /\ Spend(o.from, o.sp, o.amt, t)[1] /\ UpdOk(o.from, None, o.amt)
    [] o.op = "mint" ->
         /\ Flavour \in {"base", "pausable", "capped"} /\ GateOk(o)
         /\ (Flavour = "pausable" => Owner \in o.auth)
         /\ (Flavour = "capped" => (supply + o.amt <= MAXI /\ (BUG \in {"cap_off_by_one", "cap_headroom"} \/ supply + o.amt <= cap)
                                    /\ (BUG = "cap_off_by_one" => supply + o.amt <= cap + 1)
                                    \* the distance to the cap taken for headroom on either side of it
                                    /\ (BUG = "cap_headroom" => o.amt <= (IF cap >= supply THEN cap - supply ELSE supply - cap))))
         /\ UpdOk(None, o.to, o.amt)
    [] o.op = "advance" -> TRUE
    [] o.op = "set_cap" -> Flavour = "capped" /\ ThinBlock /\ o.amt >= 0
    [] o.op = "pause"   -> Flavour = "pausable" /\ o.from \in o.auth /\ o.from = Owner /\ ~paused
    [] o.op = "unpause" -> Flavour = "pausable" /\ o.from \in o.auth /\ o.from = Owner /\ paused
    [] o.op \in {"list", "unlist"} ->
         Flavour \in {"allowlist", "blocklist"} /\ o.from = Manager /\ o.from \in o.auth

ImplEffect(o, t) ==
  CASE o.op = "transfer" -> Upd(o.from, o.to, o.amt) /\ UNCHANGED <<al, paused, listed>>
    [] o.op = "transfer_from" ->
         /\ al' = [al EXCEPT ![o.from][o.sp] = Spend(o.from, o.sp, o.amt, t)[2]]
         /\ Upd(o.from, o.to, o.amt) /\ UNCHANGED <<paused, listed>>
    [] o.op = "approve" ->
         /\ al' = [al EXCEPT ![o.from][o.sp] = SetAllowance(o.from, o.sp, o.amt, o.until, t)[2]]
         /\ UNCHANGED <<bal, supply, paused, listed>>
    [] o.op = "burn" -> Upd(o.from, None, o.amt) /\ UNCHANGED <<al, paused, listed>>
    [] o.op = "burn_from" ->
         /\ al' = [al EXCEPT ![o.from][o.sp] = Spend(o.from, o.sp, o.amt, t)[2]]
         /\ Upd(o.from, None, o.amt) /\ UNCHANGED <<paused, listed>>
    [] o.op = "mint" -> Upd(None, o.to, o.amt) /\ UNCHANGED <<al, paused, listed>>
    [] o.op \in {"advance", "set_cap"} -> UNCHANGED <<bal, supply, al, paused, listed>>
    [] o.op = "pause"   -> paused' = TRUE /\ UNCHANGED <<bal, supply, al, listed>>
    [] o.op = "unpause" -> paused' = FALSE /\ UNCHANGED <<bal, supply, al, listed>>
    [] o.op = "list"    -> listed' = [listed EXCEPT ![o.to] = TRUE] /\ UNCHANGED <<bal, supply, al, paused>>
    [] o.op = "unlist"  -> listed' = [listed EXCEPT ![o.to] = FALSE] /\ UNCHANGED <<bal, supply, al, paused>>

(* the calls tried in every state (roles: a main holder, b second holder, c spender) -----*)
Op(op, from, to, sp, amt, until, auth, k) ==
  [op |-> op, from |-> from, to |-> to, sp |-> sp, amt |-> amt, until |-> until, auth |-> auth, k |-> k]

Ops(t) ==
  {Op("transfer", f, x, None, m, 0, IF w THEN {f} ELSE {}, 0) :
      f \in {"a", "b"}, x \in {"a", "b"}, m \in AmtsN, w \in BOOLEAN}
  \cup {Op("transfer", "a", "b", None, 1, 0, {"b"}, 0), Op("transfer", "b", "c", None, 1, 0, {"b"}, 0)}
  \cup {Op("approve", "a", None, s, m, t + d, {"a"}, 0) : s \in {"c", "a"}, m \in ApprN, d \in DUsN}
  \cup {Op("approve", "a", None, "c", 2, t + 2, au, 0) : au \in {{}, {"c"}}}
  \cup {Op("transfer_from", "a", x, "c", m, 0, au, 0) :
          x \in {"a", "b", "c"}, m \in Amts, au \in {{"c"}, {"a"}, {}}}
  \cup (IF Flavour \in NoBurn THEN {} ELSE
        {Op("burn", f, None, None, m, 0, IF w THEN {f} ELSE {}, 0) : f \in {"a", "b"}, m \in AmtsN \ {0}, w \in BOOLEAN}
        \cup {Op("burn_from", "a", None, "c", m, 0, au, 0) : m \in Amts \ {0}, au \in {{"c"}, {"a"}}})
  \cup (IF Flavour \in {"base", "capped"} THEN
          {Op("mint", None, x, None, m, 0, {}, 0) : x \in {"a", "b"}, m \in MintN}
        ELSE IF Flavour = "pausable" THEN
          {Op("mint", None, x, None, m, 0, au, 0) : x \in {"a", "b"}, m \in MintN, au \in {{}, {Owner}}}
        ELSE {})
  \cup {Op("advance", None, None, None, 0, 0, {}, k) : k \in {1, 2}}
  \cup (IF Flavour = "capped" /\ ThinBlock THEN {Op("set_cap", None, None, None, m, 0, {}, 0) : m \in CapAmts \cup Neg} ELSE {})
  \cup (IF Flavour = "pausable" THEN
          {Op(p, c, None, None, 0, 0, IF w THEN {c} ELSE {}, 0) : p \in {"pause", "unpause"}, c \in {Owner, "b"}, w \in BOOLEAN}
        ELSE {})
  \cup (IF Flavour \in {"allowlist", "blocklist"} THEN
          {Op(p, Manager, u, None, 0, 0, {Manager}, 0) : p \in {"list", "unlist"}, u \in Acct}
          \cup {Op("list", c, "b", None, 0, 0, au, 0) : c \in {"b", Manager}, au \in {{}, {"b"}}}
        ELSE {})

ObsOf(b, s, a, p, li, t) ==
  [bal |-> b, supply |-> s,
   al |-> [o \in Acct |-> [sp \in Acct |->
             IF Live(a[o][sp], t) /\ a[o][sp].until >= t THEN a[o][sp].amt ELSE 0]],
   paused |-> p, listed |-> li]

Listed0 == [a \in Acct |-> Flavour = "allowlist" /\ a = Owner]

\* list flavours start with some supply held by the (allowed) admin, as the examples do
Bal0 == [a \in Acct |-> IF Flavour \in {"allowlist", "blocklist"} /\ a = Owner THEN 2 ELSE 0]
Supply0 == IF Flavour \in {"allowlist", "blocklist"} THEN 2 ELSE 0

Init ==
  /\ bal = Bal0 /\ supply = Supply0
  /\ al = [o \in Acct |-> [s \in Acct |-> Absent]]
  /\ paused = FALSE /\ listed = Listed0 /\ now = Now0 /\ cap = Cap
  /\ g = GInit(Flavour, ObsOf(bal, supply, al, paused, listed, now), Cap, Owner)
  /\ viol = {} /\ hist = <<>>

Step(o) ==
  LET t  == now + o.k
      ok == ImplOk(o, t)
      ev == [op |-> o, now |-> t, res |-> IF ok THEN "ok" ELSE "fail",
             obs |-> ObsOf(bal', supply', al', paused', listed', t),
             evs |-> IF ok /\ BUG # "no_burn_event" THEN ExpEvents(o)
                     ELSE IF ok /\ o.op \notin Burns THEN ExpEvents(o) ELSE << >>]
  IN /\ now' = t
     /\ IF ok THEN ImplEffect(o, t) ELSE UNCHANGED <<bal, supply, al, paused, listed>>
     /\ cap' = IF ok /\ o.op = "set_cap" THEN o.amt ELSE cap
     /\ g' = GSync(GNext(g, ev), ev)
     /\ viol' = viol \cup {<<m, Key(m, g, ev)>> : m \in Failing(g, ev)}
     /\ hist' = Append(hist, o @@ [exp |-> ev.res])

\* (the bound is an enabling condition: TLC does not generate a level it would only discard)
Next == Len(hist) < Depth /\ \E o \in Ops(now) : Step(o)

Bound == Len(hist) <= Depth

EmitReplay == (EmitEvery > 0 /\ RandomElement(1..EmitEvery) = 1) => PrintT(<<"REPLAY", ToJson(hist')>>)

NoViolation == viol = {}

\* the implementation-shaped state is the ghost state
Refines == /\ g.bal = bal /\ g.supply = supply /\ g.paused = paused /\ g.listed = listed /\ g.cap = cap
           /\ \A o \in Acct : \A s \in Acct :
                AllowVal(g, o, s, now) = ObsOf(bal, supply, al, paused, listed, now).al[o][s]
           \* an allowance entry outlives its explicit expiry while it is worth something
           /\ \A o \in Acct : \A s \in Acct :
                (g.al[o][s].amt > 0 /\ g.al[o][s].until >= now) => al[o][s].lu >= g.al[o][s].until
=============================================================================
