------------------------------ MODULE Policies ------------------------------
(***************************************************************************)
(* Property-level specification of the three account policies of           *)
(* packages/accounts/src/policies (simple_threshold, weighted_threshold,   *)
(* spending_limit) as a smart account drives them: property C14.           *)
(*                                                                         *)
(* One policy instance (one smart account "acct", one context rule) per    *)
(* run; the flavour is fixed by the reset event.  An event `ev` is          *)
(*   [op  |-> [op, sg, rs, th, w, who, amt, per, ctx, auth, dt],           *)
(*    now |-> ledger sequence at the call,                                 *)
(*    res |-> "ok" | "fail",          result of the judged call             *)
(*    can |-> "true"|"false"|"trap"|"none"                                  *)
(*              answer of can_enforce, called in the same state immediately *)
(*              before the judged call (ops "enforce" and "can" only),      *)
(*    nev |-> number of contract events the policy emitted in that call,   *)
(*    obs |-> projection of the policy state through its public getters]   *)
(* op.op \in {"install","uninstall","set_threshold","set_weight",           *)
(*            "set_limit","enforce","can"}                                  *)
(*   sg   authenticated signers handed to the policy (a set, \subseteq rs)  *)
(*   rs   signers of the context rule handed to the policy                  *)
(*   th   threshold (install, set_threshold)                                *)
(*   w    weight map of a weighted install: name -> weight, -1 = no entry   *)
(*   who  signer of set_weight;  amt  its weight / transfer amount / limit  *)
(*   per  period_ledgers of a spending install                              *)
(*   ctx  "transfer" = Context::Contract(fn transfer, args (from,to,i128)); *)
(*        anything else = a non-transfer or malformed context               *)
(*   auth addresses whose authorization is attached to the call             *)
(*                                                                         *)
(* Amounts are non-negative, ledgers >= 1 (the property's quantifier).     *)
(***************************************************************************)
EXTENDS Integers, Sequences, FiniteSets

Acct == "acct"

(* weight maps: functions name -> weight, a negative weight meaning "no entry" *)
HasW(w, s) == s \in DOMAIN w /\ w[s] >= 0
WOf(w, s) == IF HasW(w, s) THEN w[s] ELSE 0
SetW(w, s, x) == [t \in DOMAIN w \cup {s} |-> IF t = s THEN x ELSE w[t]]

RECURSIVE SumOver(_, _, _)
SumOver(w, S, acc) == IF S = {} THEN acc
                      ELSE LET s == CHOOSE s \in S : TRUE IN SumOver(w, S \ {s}, acc + WOf(w, s))
WSum(w, S) == SumOver(w, S, 0)
WTotal(w) == WSum(w, DOMAIN w)

(* authorized spends: sequence of [l |-> ledger, a |-> amount authorized in that ledger, lim |-> limit *)
(* in force at the last of them], one entry per ledger, in ledger order                                *)
RECURSIVE SpentFrom(_, _, _)
SpentFrom(sp, i, lo) == IF i > Len(sp) THEN 0
                        ELSE (IF sp[i].l >= lo THEN sp[i].a ELSE 0) + SpentFrom(sp, i + 1, lo)
\* sum of the authorized amounts in the `per` consecutive ledgers ending at `now`
InWindow(sp, now, per) == SpentFrom(sp, 1, now - per + 1)
Recent(sp, now, per) == SelectSeq(sp, LAMBDA s : s.l >= now - per + 1)
Spend(sp, now, amt, lim) ==
  IF sp # <<>> /\ sp[Len(sp)].l = now
  THEN [sp EXCEPT ![Len(sp)] = [l |-> now, a |-> @.a + amt, lim |-> lim]]
  ELSE Append(sp, [l |-> now, a |-> amt, lim |-> lim])

(* ghost state --------------------------------------------------------------*)
\* inst   : a configuration (threshold / limit) is in force
\* maxw   : largest u32 in units of the run's weight scale
\* spends : authorized spends that can still share a window with a future one
\* obs    : the getters' answers after the previous call
GInit(fl, obs, maxw) ==
  [fl |-> fl, maxw |-> maxw, inst |-> FALSE, th |-> 0, w |-> [s \in {} |-> 0],
   limit |-> 0, per |-> 0, spends |-> <<>>, obs |-> obs]

GNext(g, ev) ==
  LET o == ev.op  g1 == [g EXCEPT !.obs = ev.obs] IN
  IF ev.res # "ok" THEN g1 ELSE
  CASE o.op = "install"       -> [g1 EXCEPT !.inst = TRUE, !.th = o.th, !.w = o.w, !.limit = o.amt,
                                            !.per = o.per, !.spends = <<>>]
    [] o.op = "uninstall"     -> [g1 EXCEPT !.inst = FALSE, !.spends = <<>>]
    [] o.op = "set_threshold" -> [g1 EXCEPT !.inst = TRUE, !.th = o.th]
    [] o.op = "set_weight"    -> [g1 EXCEPT !.w = SetW(g.w, o.who, o.amt)]
    [] o.op = "set_limit"     -> [g1 EXCEPT !.limit = o.amt]
    [] o.op = "enforce" /\ g.fl = "spending" /\ o.ctx = "transfer" ->
         [g1 EXCEPT !.spends = Spend(Recent(g.spends, ev.now, g.per), ev.now, o.amt, g.limit)]
    [] OTHER                  -> g1

(* what the threshold policies must answer ------------------------------------*)
Count(o) == Cardinality(o.sg)
Weight(g, o) == WSum(g.w, o.sg)
Accepts(g, o) ==
  CASE g.fl = "simple"   -> g.inst /\ Count(o) >= g.th
    \* the mathematical sum decides: a configuration whose weights cannot be summed in u32 must be refused when
    \* it is made (C14_config territory), never by refusing signers whose weights do reach the threshold
    [] g.fl = "weighted" -> g.inst /\ Weight(g, o) >= g.th
    [] OTHER             -> FALSE

ConfigOps == {"install", "uninstall", "set_threshold", "set_weight", "set_limit"}

(* monitors -------------------------------------------------------------------*)
Monitors == {"C14_threshold", "C14_weight", "C14_config", "C14_window", "C14_agree",
             "C14_auth", "C14_no_trace", "C14_malformed"}

PropOf(m) == "C14"

Ante(m, g, ev) ==
  LET o == ev.op  ok == ev.res = "ok" IN
  CASE m = "C14_threshold" -> g.fl = "simple" /\ o.op \in {"enforce", "can"}
    [] m = "C14_weight"    -> g.fl = "weighted" /\ o.op \in {"enforce", "can"}
    [] m = "C14_config"    -> /\ g.fl \in {"simple", "weighted"} /\ ok
                              /\ o.op \in {"install", "set_threshold", "set_weight"}
    [] m = "C14_window"    -> g.fl = "spending" /\ o.op = "enforce" /\ ok
    [] m = "C14_agree"     -> o.op = "enforce" /\ Acct \in o.auth
    [] m = "C14_auth"      -> o.op \in ConfigOps \cup {"enforce"} /\ Acct \notin o.auth
    [] m = "C14_no_trace"  -> ~ok \/ o.op = "can"
    [] m = "C14_malformed" -> g.fl = "spending" /\ o.op \in {"enforce", "can"} /\ o.ctx # "transfer"

Cons(m, g, ev) ==
  LET o == ev.op  ok == ev.res = "ok"  yes == ev.can = "true"  g2 == GNext(g, ev) IN
  CASE m \in {"C14_threshold", "C14_weight"} ->
         \* can_enforce says TRUE, and enforce (given the account's authorization) succeeds,
         \* exactly when the authenticated signers reach the configured threshold
         /\ (yes <=> Accepts(g, o))
         /\ ((o.op = "enforce" /\ Acct \in o.auth) => (ok <=> Accepts(g, o)))
    [] m = "C14_config" ->
         \* the configuration now in force has a non-zero, reachable threshold: at most the number
         \* of rule signers (simple) / the total configured weight (weighted), as documented
         /\ g2.th >= 1
         /\ (g.fl = "simple" => g2.th <= Cardinality(o.rs))
         /\ (g.fl = "weighted" => g2.th <= WTotal(g2.w))
    [] m = "C14_window" ->
         \* amounts being non-negative, the window ending at the current ledger dominates every
         \* window of `per` consecutive ledgers containing this spend
         /\ g.inst /\ o.ctx = "transfer"
         /\ InWindow(g.spends, ev.now, g.per) + o.amt <= g.limit
    [] m = "C14_agree" -> yes <=> ok
    [] m = "C14_auth" ->
         \* configuration requires the account; an enforce without it changes nothing (storage
         \* through the getters, events) and never authorizes a spend
         /\ (o.op \in ConfigOps => ~ok)
         /\ ev.obs = g.obs /\ ev.nev = 0
         /\ (g.fl = "spending" => ~ok)
    [] m = "C14_no_trace" -> ev.obs = g.obs /\ ev.nev = 0
    [] m = "C14_malformed" -> ~yes /\ (o.op = "enforce" => ~ok)

Holds(m, g, ev) == Ante(m, g, ev) => Cons(m, g, ev)

\* classification (only used to tell findings apart)
\* err = -4 is logged by the harness only when the host refused the call for exceeding the network's
\* resource limits (ledger entry size) while those limits are emulated ("limits": "mainnet")
Key(m, g, ev) == IF m = "C14_agree" /\ "err" \in DOMAIN ev /\ ev.err = -4
                 THEN "spending:enforce_over_ledger_entry_size_limit"
                 ELSE g.fl \o ":" \o ev.op.op

Failing(g, ev) == {m \in Monitors : ~Holds(m, g, ev)}
=============================================================================
