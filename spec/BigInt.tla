------------------------------- MODULE BigInt -------------------------------
(***************************************************************************)
(* Arbitrary-precision signed integers in pure TLA+ (TLC's own integers    *)
(* are 32-bit).  A number is [neg |-> BOOLEAN, mag |-> little-endian       *)
(* sequence of limbs in 0..Base-1 without leading zero limbs]; zero is      *)
(* [neg |-> FALSE, mag |-> <<>>].  Only +, -, *, comparison: "q is the     *)
(* rounded quotient of p by d" is always stated by its definition with     *)
(* multiplications, never computed by division.                            *)
(* Base = 2^15 so that limb products stay below 2^31.  The module is model- *)
(* checked against TLC's native integers at Base = 4 (MC_BigInt).           *)
(***************************************************************************)
EXTENDS Integers, Sequences

CONSTANT Base

Zero == [neg |-> FALSE, mag |-> <<>>]

RECURSIVE Trim(_)
Trim(s) == IF s = <<>> THEN s ELSE IF s[Len(s)] = 0 THEN Trim(SubSeq(s, 1, Len(s) - 1)) ELSE s

Mk(neg, mag) == LET m == Trim(mag) IN [neg |-> (neg /\ m # <<>>), mag |-> m]

\* limb sequence of a non-negative native integer
RECURSIVE MagOf(_)
MagOf(n) == IF n = 0 THEN <<>> ELSE <<n % Base>> \o MagOf(n \div Base)
FromInt(n) == IF n < 0 THEN Mk(TRUE, MagOf(-n)) ELSE Mk(FALSE, MagOf(n))

RECURSIVE MagToInt(_)
MagToInt(s) == IF s = <<>> THEN 0 ELSE s[1] + Base * MagToInt(Tail(s))
ToInt(a) == IF a.neg THEN -MagToInt(a.mag) ELSE MagToInt(a.mag)

Limb(s, i) == IF i <= Len(s) THEN s[i] ELSE 0
MaxLen(a, b) == IF Len(a) >= Len(b) THEN Len(a) ELSE Len(b)

\* magnitude comparison: -1, 0, 1
RECURSIVE MagCmpFrom(_, _, _)
MagCmpFrom(a, b, i) == IF i = 0 THEN 0
                       ELSE IF Limb(a, i) < Limb(b, i) THEN -1
                       ELSE IF Limb(a, i) > Limb(b, i) THEN 1
                       ELSE MagCmpFrom(a, b, i - 1)
MagCmp(a, b) == MagCmpFrom(a, b, MaxLen(a, b))

RECURSIVE MagAddFrom(_, _, _, _, _)
MagAddFrom(a, b, i, n, carry) ==
  IF i > n THEN (IF carry = 0 THEN <<>> ELSE <<carry>>)
  ELSE LET t == Limb(a, i) + Limb(b, i) + carry IN
       <<t % Base>> \o MagAddFrom(a, b, i + 1, n, t \div Base)
MagAdd(a, b) == MagAddFrom(a, b, 1, MaxLen(a, b), 0)

\* a - b for |a| >= |b|
RECURSIVE MagSubFrom(_, _, _, _, _)
MagSubFrom(a, b, i, n, borrow) ==
  IF i > n THEN <<>>
  ELSE LET t == Limb(a, i) - Limb(b, i) - borrow IN
       IF t < 0 THEN <<t + Base>> \o MagSubFrom(a, b, i + 1, n, 1)
       ELSE <<t>> \o MagSubFrom(a, b, i + 1, n, 0)
MagSub(a, b) == Trim(MagSubFrom(a, b, 1, Len(a), 0))

\* a * (single limb m), shifted by k limbs
RECURSIVE MagMulLimbFrom(_, _, _, _)
MagMulLimbFrom(a, m, i, carry) ==
  IF i > Len(a) THEN (IF carry = 0 THEN <<>> ELSE <<carry>>)
  ELSE LET t == a[i] * m + carry IN <<t % Base>> \o MagMulLimbFrom(a, m, i + 1, t \div Base)
Zeros(k) == [j \in 1..k |-> 0]

RECURSIVE MagMulFrom(_, _, _)
MagMulFrom(a, b, j) ==
  IF j > Len(b) THEN <<>>
  ELSE MagAdd(IF b[j] = 0 THEN <<>> ELSE Zeros(j - 1) \o MagMulLimbFrom(a, b[j], 1, 0),
              MagMulFrom(a, b, j + 1))
MagMul(a, b) == IF a = <<>> \/ b = <<>> THEN <<>> ELSE Trim(MagMulFrom(a, b, 1))

(* signed operations ----------------------------------------------------------*)
BNeg(a) == Mk(~a.neg, a.mag)
BAdd(a, b) ==
  IF a.neg = b.neg THEN Mk(a.neg, MagAdd(a.mag, b.mag))
  ELSE LET c == MagCmp(a.mag, b.mag) IN
       IF c = 0 THEN Zero
       ELSE IF c > 0 THEN Mk(a.neg, MagSub(a.mag, b.mag))
       ELSE Mk(b.neg, MagSub(b.mag, a.mag))
BSub(a, b) == BAdd(a, BNeg(b))
BMul(a, b) == Mk(a.neg # b.neg, MagMul(a.mag, b.mag))

\* -1, 0, 1
BCmp(a, b) ==
  IF a.neg /\ ~b.neg THEN -1
  ELSE IF ~a.neg /\ b.neg THEN 1
  ELSE IF a.neg THEN MagCmp(b.mag, a.mag) ELSE MagCmp(a.mag, b.mag)
BLt(a, b) == BCmp(a, b) < 0
BLe(a, b) == BCmp(a, b) <= 0
BEq(a, b) == BCmp(a, b) = 0
BSign(a) == IF a.mag = <<>> THEN 0 ELSE IF a.neg THEN -1 ELSE 1
BAbs(a) == Mk(FALSE, a.mag)
One == Mk(FALSE, <<1>>)

\* 2^k
RECURSIVE MagPow2(_)
MagPow2(k) == IF k = 0 THEN <<1>> ELSE MagMul(MagPow2(k - 1), <<2>>)
Pow2(k) == Mk(FALSE, MagPow2(k))

\* a logged number: [n |-> 0 | 1 (negative), m |-> limbs]
FromLog(r) == Mk(r.n = 1, r.m)
=============================================================================
