------------------------------ MODULE Timelock ------------------------------
(***************************************************************************)
(* Property-level specification of the timelock of packages/governance     *)
(* (schedule_operation / execute_operation / cancel_operation /            *)
(* set_min_delay and the state getters).  Single source of truth for       *)
(* property C08.  Pure operators over a ghost record `g` and an event `ev`; *)
(* the same operators judge every transition of MC_Timelock (TLC,          *)
(* exhaustive) and every step recorded from the real code (Trace_Timelock).*)
(*                                                                         *)
(* Event:                                                                  *)
(*   [op  |-> [op, id, delay, chg, dt],                                    *)
(*    now |-> ledger sequence at the call (model scale, see below),        *)
(*    res |-> "ok" | "fail",                                               *)
(*    obs |-> [min   |-> get_min_delay,                                    *)
(*             total |-> number of invocations the target contract saw,    *)
(*             same, retid |-> booleans (hash comparisons, see C08_id),    *)
(*             ops |-> [id |-> [state, ledger, exists, pending, ready,     *)
(*                              done, calls]]]]   for EVERY id of the run  *)
(* op.op \in {"schedule","execute","cancel","set_min_delay","hash"}.       *)
(*   schedule: id, delay      execute: id       cancel: id (any id)        *)
(*   set_min_delay: delay     hash: id, chg \in Chg                        *)
(*                                                                         *)
(* Ledger scale.  TLC integers are 32-bit signed, u32::MAX does not fit.   *)
(* Ledgers and delays x are recorded as   x            if x < 2^29         *)
(*                                        U32MAX-(u32::MAX-x) if x is      *)
(* within 2^29 of u32::MAX, with U32MAX = 2^30 the image of u32::MAX.  The *)
(* map is monotone and commutes with saturating addition for every pair    *)
(* (small, small) and (small, near-max) - the only pairs a run produces.   *)
(***************************************************************************)
EXTENDS Naturals, Sequences, FiniteSets

U32MAX == 1073741824
NoPred == "none"
\* ("swap": predecessor and salt - two fields of the same type - exchanged, also with one of them all-zero)
Chg    == {"none", "target", "function", "args", "pred", "salt", "swap"}

SatAdd(a, b) == IF a + b > U32MAX THEN U32MAX ELSE a + b

RECURSIVE SumOver(_, _)
SumOver(f, D) == IF D = {} THEN 0 ELSE LET x == CHOOSE x \in D : TRUE IN f[x] + SumOver(f, D \ {x})
Sum(f) == SumOver(f, DOMAIN f)

(* ghost state ------------------------------------------------------------*)
\* pred  : id -> id | "none"   the predecessor field of every operation of the run (fixed)
\* min   : minimum delay in force
\* o[id] : st \in {"unset","sched","done"}; for "sched": at (ledger of scheduling), delay,
\*         minAt (minimum delay in force when it was scheduled)
\* execs[id] : number of successful executions (= invocations the target must have seen)
UnsetOp == [st |-> "unset", at |-> 0, delay |-> 0, minAt |-> 0]

GInit(pred, min) == [pred |-> pred, min |-> min,
                     o |-> [i \in DOMAIN pred |-> UnsetOp],
                     execs |-> [i \in DOMAIN pred |-> 0]]

Ids(g) == DOMAIN g.pred
Known(g, ev) == ev.op.id \in Ids(g)

GNext(g, ev) ==
  LET o == ev.op  ok == ev.res = "ok" IN
  IF ~ok THEN g ELSE
  CASE o.op = "schedule" /\ Known(g, ev) ->
         [g EXCEPT !.o[o.id] = [st |-> "sched", at |-> ev.now, delay |-> o.delay, minAt |-> g.min]]
    [] o.op = "execute" /\ Known(g, ev) ->
         [g EXCEPT !.o[o.id] = [UnsetOp EXCEPT !.st = "done"], !.execs[o.id] = @ + 1]
    [] o.op = "cancel" /\ Known(g, ev) ->
         IF g.o[o.id].st = "sched" THEN [g EXCEPT !.o[o.id] = UnsetOp] ELSE g
    [] o.op = "set_min_delay" -> [g EXCEPT !.min = o.delay]
    [] OTHER -> g

(* what the getters must report ---------------------------------------------*)
ReadyAt(x) == SatAdd(x.at, x.delay)
IsReady(x, now) == x.st = "sched" /\ now >= ReadyAt(x)

ExpOp(x, calls, now) ==
  [state   |-> CASE x.st = "unset" -> "Unset"
                 [] x.st = "done"  -> "Done"
                 [] OTHER          -> IF now >= ReadyAt(x) THEN "Ready" ELSE "Waiting",
   ledger  |-> CASE x.st = "unset" -> 0 [] x.st = "done" -> 1 [] OTHER -> ReadyAt(x),
   exists  |-> x.st # "unset",
   pending |-> x.st = "sched",
   ready   |-> IsReady(x, now),
   done    |-> x.st = "done",
   calls   |-> calls]

PredDone(g, id) == g.pred[id] = NoPred \/ (g.pred[id] \in Ids(g) /\ g.o[g.pred[id]].st = "done")

(* monitors ---------------------------------------------------------------*)
Monitors == {"C08_exec", "C08_once", "C08_state", "C08_target", "C08_id", "C08_sched_delay"}
PropOf(m) == "C08"

Ante(m, g, ev) ==
  LET o == ev.op  ok == ev.res = "ok" IN
  CASE m = "C08_exec"   -> o.op = "execute" /\ ok
    \* done is absorbing
    [] m = "C08_once"   -> o.op \in {"execute", "cancel", "schedule"} /\ Known(g, ev) /\ g.o[o.id].st = "done"
    [] m = "C08_state"  -> TRUE
    [] m = "C08_target" -> TRUE
    [] m = "C08_id"     -> o.op = "hash" \/ (o.op = "schedule" /\ ok)
    \* an operation accepted with a delay below the minimum in force could later be executed in breach of the
    \* property (possibly at a ledger no test can reach, e.g. a saturated ready ledger): judged when it is accepted
    [] m = "C08_sched_delay" -> o.op = "schedule" /\ ok

Cons(m, g, ev) ==
  LET o == ev.op  ok == ev.res = "ok"  now == ev.now  g2 == GNext(g, ev) IN
  CASE m = "C08_exec" ->
         /\ Known(g, ev)
         /\ LET x == g.o[o.id] IN
            /\ x.st = "sched"                 \* scheduled, not cancelled since, not executed before
            /\ x.delay >= x.minAt             \* with a delay >= the minimum in force at scheduling
            /\ now >= ReadyAt(x)              \* the scheduled delay has fully elapsed (saturating)
            /\ PredDone(g, o.id)              \* the predecessor, if any, has been executed
            /\ g.execs[o.id] = 0
    [] m = "C08_once" -> ~ok
    \* every getter, for every id, is the function of the ghost state and the ledger; the only
    \* way into Waiting/Ready is scheduling an Unset operation
    [] m = "C08_state" ->
         /\ ev.obs.min = g2.min
         /\ \A i \in Ids(g) : LET e == ExpOp(g2.o[i], 0, now)  x == ev.obs.ops[i] IN
               /\ x.state = e.state /\ x.ledger = e.ledger /\ x.exists = e.exists
               /\ x.pending = e.pending /\ x.ready = e.ready /\ x.done = e.done
         /\ (o.op = "schedule" /\ ok /\ Known(g, ev)) => g.o[o.id].st # "sched"
    \* the target ran exactly once per successful execute, with that operation's arguments
    [] m = "C08_target" ->
         /\ \A i \in Ids(g) : ev.obs.ops[i].calls = g2.execs[i]
         /\ ev.obs.total = Sum(g2.execs)
    \* equal fields give the equal id, any single changed field a different one; the id
    \* returned by schedule is that very id
    [] m = "C08_id" -> IF o.op = "hash" THEN ok /\ (ev.obs.same <=> (o.chg = "none"))
                       ELSE ev.obs.retid

ConsExtra(m, g, ev) == ev.op.delay >= g.min

Holds(m, g, ev) == Ante(m, g, ev) => (IF m = "C08_sched_delay" THEN ConsExtra(m, g, ev) ELSE Cons(m, g, ev))

\* classification (only used to match known findings and to make reports readable)
Key(m, g, ev) ==
  LET o == ev.op IN
  IF m = "C08_exec" /\ Known(g, ev) THEN
     LET x == g.o[o.id] IN
     CASE x.st = "unset" /\ g.execs[o.id] = 0 -> "not_scheduled"
       [] x.st # "sched"                      -> "executed_before"
       [] ev.now < ReadyAt(x)                 -> "before_ready"
       [] ~PredDone(g, o.id)                  -> "predecessor_not_done"
       [] x.delay < x.minAt                   -> "delay_below_minimum"
       [] OTHER                               -> "other"
  ELSE IF m = "C08_once" THEN o.op
  ELSE IF m = "C08_state" /\ o.op = "schedule" /\ ev.res = "ok" /\ Known(g, ev) /\ g.o[o.id].st = "sched"
       THEN "rescheduled_while_pending"
  ELSE "other"

Failing(g, ev) == {m \in Monitors : ~Holds(m, g, ev)}
=============================================================================
