----------------------------- MODULE Trace_Nft -----------------------------
(***************************************************************************)
(* Trace validation: reads the ndjson trace recorded from the real NFT     *)
(* contracts (env TRACE), advances the sparse ghost of Nft.tla by each      *)
(* recorded step and evaluates every monitor on it.  Violations are        *)
(* collected (VIOL lines); after a violation of a property the monitors of that property are        *)
(* skipped and validation resumes at the next reset event.  `cnt` counts,   *)
(* per monitor, the steps on which its antecedent held.                     *)
(***************************************************************************)
EXTENDS Nft, Json, IOUtils

Rec == ndJsonDeserialize(IOEnv.TRACE)

VARIABLES l, g, dead, cnt
vars == <<l, g, dead, cnt>>

NormObs(obs) == [obs EXCEPT !.owners = SeqToSet(obs.owners), !.appr = SeqToSet(obs.appr)]
Norm(ev) == [op  |-> [op |-> ev.op.op, sp |-> ev.op.sp, from |-> ev.op.from, to |-> ev.op.to, id |-> ev.op.id,
                      n |-> ev.op.n, until |-> ev.op.until, auth |-> SeqToSet(ev.op.auth), dt |-> ev.op.dt],
             now |-> ev.now, res |-> ev.res, ret |-> ev.ret, obs |-> NormObs(ev.obs), run |-> ev.run, i |-> ev.i]

NoObs == [supply |-> -1, glob |-> <<>>, otok |-> <<>>]
Init == l = 1 /\ g = GInit("base", NoObs) /\ dead = {} /\ cnt = [m \in Monitors |-> 0]

Report(ev, m) == PrintT(<<"VIOL", ToJson([run |-> ev.run, i |-> ev.i, line |-> l, mon |-> m,
                                          prop |-> PropOf(m), key |-> Key(m, g, ev), after |-> dead])>>)

\* (operator arguments are evaluated once; see MC_Nft)
Judge(ev, g2, f) ==
  /\ \A m \in f : Report(ev, m)
  /\ dead' = dead \cup {PropOf(m) : m \in f}
  /\ g' = g2
  /\ cnt' = [m \in Monitors |-> cnt[m] + IF Ante(m, g, ev) THEN 1 ELSE 0]

JudgeG(ev, g2) == Judge(ev, g2, {m \in FailingX(g, g2, ev) : PropOf(m) \notin dead})
JudgeEv(ev) == JudgeG(ev, GNext(g, ev))

Next ==
  /\ l <= Len(Rec)
  /\ l' = l + 1
  /\ LET raw == Rec[l] IN
     IF raw.op.op = "reset" THEN g' = GInit(raw.op.flavour, raw.obs) /\ dead' = {} /\ UNCHANGED cnt
     ELSE JudgeEv(Norm(raw))
  /\ (l = Len(Rec) => PrintT(<<"DONE", l, ToJson(cnt')>>))

Spec == Init /\ [][Next]_vars
=============================================================================
