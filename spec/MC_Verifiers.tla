---------------------------- MODULE MC_Verifiers ----------------------------
(***************************************************************************)
(* Implementation-shaped model of the verifiers: the checks of the         *)
(* webauthn-verifier example + webauthn::verify transcribed in the code's  *)
(* own order (with uninterpreted hashes/signatures: the host's             *)
(* secp256r1_verify / ed25519_verify succeed iff the signature was made    *)
(* by the secret key of the given public key over exactly the given        *)
(* bytes), and the table-driven loop of base64_url_encode.                 *)
(* TLC enumerates ALL abstract assertions (as initial states), judges the  *)
(* event each one produces with the monitors of Verifiers.tla, and prints  *)
(* it as a one-call behaviour for the replay on the real contracts.        *)
(* The encoder is enumerated on all byte strings of length 0..MaxB64 over  *)
(* a small byte lattice and compared with the arithmetic definition of     *)
(* Verifiers.tla and with an independent bit-level definition.             *)
(***************************************************************************)
EXTENDS Verifiers, Json

CONSTANTS BUG,       \* "" | "no_bs" | "no_uv" | "no_up" | "no_type" | "min_len" | "max_len" | "pad" | "std"
          Emit,      \* TRUE: print one REPLAY line per case
          MaxB64,    \* longest encoder input
          Lattice    \* byte values used for the encoder inputs

VARIABLES o, viol, hist
vars == <<o, viol, hist>>
View == <<o, viol, Len(hist)>>

(* the universe of cases ----------------------------------------------------*)
WOps == [op : {"webauthn"}, type : {"get", "create"},
         chal : {"right", "wrong", "other_payload", "padded", "std_alphabet"},
         flags : SUBSET FlagNames, xbits : {0},
         alen : {AuthMin - 1, AuthMin, AuthMin + 1}, clen : {0, ClientMax, ClientMax + 1},
         sig : {"right", "altered_auth", "altered_client", "other_key", "garbage"},
         key : {"right", "other"}, payload : {"right", "other"},
         layout : {"compact"}, plen : {32}, bit : {0}, inp : {<<>>}]

EOps == [op : {"ed25519"}, type : {"-"}, chal : {"-"}, flags : {{}}, xbits : {0}, alen : {0}, clen : {0},
         sig : ESigs, key : EKeys, payload : EPayloads,
         layout : {"-"}, plen : {32}, bit : {0}, inp : {<<>>}]

BOps == [op : {"b64"}, type : {"-"}, chal : {"-"}, flags : {{}}, xbits : {0}, alen : {0}, clen : {0},
         sig : {"-"}, key : {"-"}, payload : {"-"},
         layout : {"-"}, plen : {0}, bit : {0},
         inp : UNION {[1..n -> Lattice] : n \in 0..MaxB64}]

(* the code: base64_url_encode ------------------------------------------------*)
\* const ALPHABET: &[u8] = b"ABC...XYZabc...xyz0123456789-_"
ALPHABET == <<65, 66, 67, 68, 69, 70, 71, 72, 73, 74, 75, 76, 77, 78, 79, 80, 81, 82, 83, 84, 85, 86, 87, 88, 89, 90,
              97, 98, 99, 100, 101, 102, 103, 104, 105, 106, 107, 108, 109, 110, 111, 112, 113, 114, 115, 116,
              117, 118, 119, 120, 121, 122,
              48, 49, 50, 51, 52, 53, 54, 55, 56, 57,
              IF BUG = "std" THEN 43 ELSE 45, IF BUG = "std" THEN 47 ELSE 95>>
Tab(i) == ALPHABET[i + 1]
Shr(v, k) == v \div (CASE k = 18 -> 262144 [] k = 12 -> 4096 [] k = 6 -> 64 [] OTHER -> 1)
And3F(v) == v % 64

\* while si < n { val = src[si] << 16 | src[si+1] << 8 | src[si+2]; 4 digits; si += 3; di += 4 }
RECURSIVE Loop(_, _, _, _)
Loop(src, si, n, dst) ==
  IF si < n
  THEN LET val == src[si + 1] * 65536 + src[si + 2] * 256 + src[si + 3] IN
       Loop(src, si + 3, n, dst \o <<Tab(And3F(Shr(val, 18))), Tab(And3F(Shr(val, 12))),
                                     Tab(And3F(Shr(val, 6))), Tab(And3F(val))>>)
  ELSE dst

ImplB64(src) ==
  LET n      == (Len(src) \div 3) * 3
      dst    == Loop(src, 0, n, <<>>)
      remain == Len(src) - n
  IN IF remain = 0 THEN dst
     ELSE LET val == src[n + 1] * 65536 + (IF remain = 2 THEN src[n + 2] * 256 ELSE 0) IN
          dst \o <<Tab(And3F(Shr(val, 18))), Tab(And3F(Shr(val, 12)))>>
              \o (IF remain = 2 THEN <<Tab(And3F(Shr(val, 6)))>> ELSE <<>>)
              \* seeded bug: the padding logic of the Go original not removed
              \o (IF BUG = "pad" THEN (IF remain = 2 THEN <<61>> ELSE <<61, 61>>) ELSE <<>>)

(* independent definition: the bit string, cut into groups of 6 bits ---------*)
Bits8(x) == <<(x \div 128) % 2, (x \div 64) % 2, (x \div 32) % 2, (x \div 16) % 2,
              (x \div 8) % 2, (x \div 4) % 2, (x \div 2) % 2, x % 2>>
RECURSIVE BitsOf(_)
BitsOf(b) == IF b = <<>> THEN <<>> ELSE Bits8(Head(b)) \o BitsOf(Tail(b))
RECURSIVE Zeros(_)
Zeros(k) == IF k = 0 THEN <<>> ELSE <<0>> \o Zeros(k - 1)
RFC4648 == <<65, 66, 67, 68, 69, 70, 71, 72, 73, 74, 75, 76, 77, 78, 79, 80, 81, 82, 83, 84, 85, 86, 87, 88, 89, 90,
             97, 98, 99, 100, 101, 102, 103, 104, 105, 106, 107, 108, 109, 110, 111, 112, 113, 114, 115, 116,
             117, 118, 119, 120, 121, 122, 48, 49, 50, 51, 52, 53, 54, 55, 56, 57, 45, 95>>
RECURSIVE Digits(_)
Digits(s) == IF s = <<>> THEN <<>>
             ELSE <<RFC4648[s[1] * 32 + s[2] * 16 + s[3] * 8 + s[4] * 4 + s[5] * 2 + s[6] + 1]>>
                  \o Digits(SubSeq(s, 7, Len(s)))
B64Bits(b) == LET s == BitsOf(b) IN Digits(s \o Zeros((6 - (Len(s) % 6)) % 6))

(* the code: webauthn-verifier example + webauthn::verify, in their order of checks ------------*)
\* the host's signature check (trusted): made by the secret key of the given key over the given bytes
HostVerify(a) == SigVerifies(a)

\* validate_challenge: the challenge string equals the code's OWN encoding of payload[0..32]
\* (for a 33-byte payload "long" these are the 32 bytes of P0)
OwnEncoding == IF BUG = "pad" THEN "padded" ELSE IF BUG = "std" THEN "std_alphabet" ELSE "right"
ChalEq(a) == a.chal = OwnEncoding /\ a.payload \in {"right", "long"}

ImplWebauthn(a) ==
  \* contract.rs: WebAuthnSigData::from_xdr(sig_data) (well-formed in every case here);
  \*              extract_from_bytes(key_data, 0..65) - a longer key_data is fine (credential id)
  IF a.key = "short" THEN FALSE
  \* if client_data.len() > CLIENT_DATA_MAX_LEN -> ClientDataTooLong
  ELSE IF a.clen > (IF BUG = "max_len" THEN ClientMax + 1 ELSE ClientMax) THEN FALSE
  \* serde_json_core::de::from_slice -> JsonParseError (a member is missing)
  ELSE IF a.type = "missing" \/ a.chal = "missing" THEN FALSE
  \* validate_expected_type
  ELSE IF a.type # "get" /\ BUG # "no_type" THEN FALSE
  \* validate_challenge: extract_from_bytes(signature_payload, 0..32) -> SignaturePayloadInvalid
  ELSE IF a.payload = "short" THEN FALSE
  ELSE IF ~ChalEq(a) THEN FALSE
  \* if authenticator_data.len() < AUTHENTICATOR_DATA_MIN_LEN -> AuthDataFormatInvalid
  ELSE IF a.alen < (IF BUG = "min_len" THEN AuthMin - 1 ELSE AuthMin) THEN FALSE
  \* flags = authenticator_data[32]
  ELSE IF "UP" \notin a.flags /\ BUG # "no_up" THEN FALSE
  ELSE IF "UV" \notin a.flags /\ BUG # "no_uv" THEN FALSE
  ELSE IF "BE" \notin a.flags /\ "BS" \in a.flags /\ BUG # "no_bs" THEN FALSE
  \* secp256r1_verify(pub_key, sha256(authenticator_data || sha256(client_data)), signature)
  ELSE HostVerify(a)

\* ed25519::verify: ed25519_verify(public_key, signature_payload, signature); true
ImplEd25519(a) == a.payload = "right" /\ \/ a.sig = "right" /\ a.key = "right"
                                         \/ a.sig = "other_key" /\ a.key = "other"

(* one case = one behaviour of one call -----------------------------------------------------------*)
EvOf(a) == [op  |-> a,
            res |-> CASE a.op = "webauthn" -> IF ImplWebauthn(a) THEN "ok" ELSE "fail"
                      [] a.op = "ed25519"  -> IF ImplEd25519(a) THEN "ok" ELSE "fail"
                      [] OTHER             -> "ok",
            out |-> IF a.op = "b64" THEN ImplB64(a.inp) ELSE <<>>]

Init == o \in (WOps \cup EOps \cup BOps) /\ viol = {} /\ hist = <<>>

Next == /\ hist = <<>>
        /\ LET ev == EvOf(o) IN
           /\ viol' = {<<m, Key(m, ev)>> : m \in Failing(ev)}
           /\ hist' = <<[op |-> o.op, type |-> o.type, chal |-> o.chal, flags |-> o.flags, xbits |-> o.xbits,
                         alen |-> o.alen, clen |-> o.clen, sig |-> o.sig, key |-> o.key,
                         payload |-> o.payload, layout |-> o.layout, plen |-> o.plen, bit |-> o.bit,
                         inp |-> o.inp, exp |-> ev.res]>>
        /\ UNCHANGED o

Spec == Init /\ [][Next]_vars

Bound == Len(hist) <= 1
EmitReplay == Emit => PrintT(<<"REPLAY", ToJson(hist')>>)

(* what TLC checks ----------------------------------------------------------------------------------*)
NoViolation == viol = {}
\* the transcription of the code decides exactly what the property's Accept says, for every case
Correct == /\ o.op = "webauthn" => (ImplWebauthn(o) <=> WAccept(o))
           /\ o.op = "ed25519"  => (ImplEd25519(o) <=> EAccept(o))
           /\ o.op = "b64"      => ImplB64(o.inp) = B64(o.inp) /\ Len(ImplB64(o.inp)) = B64Len(Len(o.inp))
\* the arithmetic definition used by the trace specification equals the bit-level definition
DefsAgree == o.op = "b64" => B64(o.inp) = B64Bits(o.inp)
=============================================================================
