----------------------------- MODULE MC_MulDiv -----------------------------
(***************************************************************************)
(* The mul-div algorithm of i128_fixed_point.rs transcribed branch by      *)
(* branch at a small width W (so that TLC can enumerate ALL inputs):       *)
(* "narrow" type = W-bit signed integers, "wide" type = 2W-bit (the I256   *)
(* fallback).  For every (x, y, d) and every rounding mode the transcribed *)
(* panicking and checked variants must equal the mathematical definition:  *)
(* the exactly rounded quotient when d # 0 and it fits, an error otherwise. *)
(* The reachable branch classes are the ones the full-width conformance     *)
(* run has to cover (lib/models/MulDiv.py, need_cnt).                       *)
(***************************************************************************)
EXTENDS Integers, Sequences, TLC

CONSTANTS W,       \* width in bits of the narrow type
          BUG      \* "" | "ceil_sign" | "no_widen" | "min_neg_one"

VARIABLES x, y, d, mode
vars == <<x, y, d, mode>>

RECURSIVE P2(_)
P2(k) == IF k = 0 THEN 1 ELSE 2 * P2(k - 1)
MinN == -P2(W - 1)
MaxN == P2(W - 1) - 1
Range == MinN..MaxN
FitsN(v) == v >= MinN /\ v <= MaxN
MinWide == -P2(2 * W - 1)
MaxWide == P2(2 * W - 1) - 1

Abs(v) == IF v < 0 THEN -v ELSE v
Sgn(v) == IF v < 0 THEN -1 ELSE IF v > 0 THEN 1 ELSE 0
\* Rust `/` (truncating) and rem_euclid, for z # 0
TruncDiv(r, z) == Sgn(r) * Sgn(z) * (Abs(r) \div Abs(z))
RemEuclid(r, z) == r % Abs(z)

Err == 999999          \* sentinel outside every range (TLC cannot compare strings with integers)

\* ---- mathematical definition ---------------------------------------------------------------
FloorQ(p, z) == IF RemEuclid(p, z) = 0 THEN TruncDiv(p, z)
                ELSE IF Sgn(p) * Sgn(z) < 0 THEN TruncDiv(p, z) - 1 ELSE TruncDiv(p, z)
CeilQ(p, z)  == IF RemEuclid(p, z) = 0 THEN TruncDiv(p, z)
                ELSE IF Sgn(p) * Sgn(z) > 0 THEN TruncDiv(p, z) + 1 ELSE TruncDiv(p, z)
MathQ(m, p, z) == CASE m = "floor" -> FloorQ(p, z) [] m = "ceil" -> CeilQ(p, z) [] OTHER -> TruncDiv(p, z)
Math(m, a, b, z) == IF z = 0 THEN Err
                    ELSE LET q == MathQ(m, a * b, z) IN IF FitsN(q) THEN q ELSE Err

\* ---- the code -------------------------------------------------------------------------------
\* checked_div / checked_rem_euclid / checked_sub / checked_add on the narrow type
CDiv(r, z) == IF z = 0 THEN Err
              ELSE IF r = MinN /\ z = -1 THEN (IF BUG = "min_neg_one" THEN MinN ELSE Err)   \* seeded bug: wraps
              ELSE TruncDiv(r, z)
CRem(r, z) == IF z = 0 \/ (r = MinN /\ z = -1) THEN Err ELSE RemEuclid(r, z)
CAdd(a, b) == IF FitsN(a + b) THEN a + b ELSE Err

\* fn div_floor(r, z) -> Option
DivFloorN(r, z) ==
  IF (r < 0 /\ z > 0) \/ (r > 0 /\ z < 0)
  THEN LET rem == CRem(r, z) IN
       IF rem = Err THEN Err ELSE CAdd(TruncDiv(r, z), IF rem > 0 THEN -1 ELSE 0)
  ELSE CDiv(r, z)
\* fn div_ceil(r, z) -> Option
DivCeilN(r, z) ==
  IF (IF BUG = "ceil_sign" THEN (r < 0 /\ z > 0) \/ (r > 0 /\ z < 0)
      ELSE (r <= 0 /\ z > 0) \/ (r >= 0 /\ z < 0))
  THEN CDiv(r, z)
  ELSE LET rem == CRem(r, z) IN
       IF rem = Err THEN Err ELSE CAdd(TruncDiv(r, z), IF rem > 0 THEN 1 ELSE 0)

\* the wide (I256) helpers never fail for a non-zero divisor here: |x*y| < 2^(2W-2)
WideQ(m, p, z) == CASE m = "floor" -> IF (p < 0 /\ z > 0) \/ (p > 0 /\ z < 0)
                                      THEN TruncDiv(p, z) - (IF RemEuclid(p, z) > 0 THEN 1 ELSE 0)
                                      ELSE TruncDiv(p, z)
                    [] m = "ceil"  -> IF (p <= 0 /\ z > 0) \/ (p >= 0 /\ z < 0)
                                      THEN TruncDiv(p, z)
                                      ELSE TruncDiv(p, z) + (IF RemEuclid(p, z) > 0 THEN 1 ELSE 0)
                    [] OTHER       -> TruncDiv(p, z)
Narrow(q) == IF FitsN(q) THEN q ELSE Err

\* panicking variants: explicit zero check first
Plain(m, a, b, z) ==
  IF z = 0 THEN Err
  ELSE IF FitsN(a * b)                          \* checked_mul succeeded
  THEN CASE m = "floor" -> DivFloorN(a * b, z)
         [] m = "ceil"  -> DivCeilN(a * b, z)
         [] OTHER       -> IF a * b = MinN /\ z = -1 THEN Err ELSE TruncDiv(a * b, z)   \* `r / z` overflow panics
  ELSE IF BUG = "no_widen" THEN Err
  ELSE Narrow(WideQ(m, a * b, z))
\* checked variants: no explicit zero check on the narrow path
Checked(m, a, b, z) ==
  IF FitsN(a * b)
  THEN CASE m = "floor" -> DivFloorN(a * b, z)
         [] m = "ceil"  -> DivCeilN(a * b, z)
         [] OTHER       -> CDiv(a * b, z)
  ELSE IF z = 0 THEN Err                        \* the I256 checked variants test the divisor
  ELSE IF BUG = "no_widen" THEN Err
  ELSE Narrow(WideQ(m, a * b, z))

Sg(v) == IF v > 0 THEN "p" ELSE IF v < 0 THEN "n" ELSE "z"
ClassOf(m, a, b, z) ==
  IF z = 0 THEN "zero_den"
  ELSE (IF FitsN(a * b) THEN "narrow" ELSE "wide") \o "_" \o m \o "_" \o Sg(a * b) \o Sg(z) \o "_"
       \o (IF FitsN(MathQ(m, a * b, z)) THEN "fits" ELSE "over")

Init == x \in Range /\ y \in Range /\ d \in Range /\ mode \in {"floor", "ceil", "trunc"}
Next == UNCHANGED vars

Correct == Plain(mode, x, y, d) = Math(mode, x, y, d) /\ Checked(mode, x, y, d) = Math(mode, x, y, d)
\* printing the classes once per class is not possible without state; the set is asserted instead
ReachableClasses ==
  {"zero_den"} \cup
  {a \o "_" \o mo \o "_" \o sp \o sd \o "_fits" : a \in {"narrow", "wide"}, mo \in {"floor", "ceil", "trunc"},
       sp \in {"p", "n"}, sd \in {"p", "n"}}
  \cup {"narrow_" \o mo \o "_z" \o sd \o "_fits" : mo \in {"floor", "ceil", "trunc"}, sd \in {"p", "n"}}
  \cup {"wide_" \o mo \o "_" \o sp \o sd \o "_over" : mo \in {"floor", "ceil", "trunc"}, sp \in {"p", "n"}, sd \in {"p", "n"}}
  \cup {"narrow_" \o mo \o "_nn_over" : mo \in {"floor", "ceil", "trunc"}}
ClassKnown == ClassOf(mode, x, y, d) \in ReachableClasses
=============================================================================
