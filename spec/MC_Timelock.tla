---------------------------- MODULE MC_Timelock ----------------------------
(***************************************************************************)
(* Implementation-shaped model of packages/governance/src/timelock/        *)
(* storage.rs: one persistent entry OperationLedger(id) per operation      *)
(* (absent = 0 = unset, 1 = done, otherwise the ready ledger), the instance *)
(* entry MinDelay, and the target contract's invocation log.  Checked       *)
(* exhaustively against the monitors of Timelock.tla and used as generator  *)
(* of the behaviours replayed on the real code.                             *)
(***************************************************************************)
EXTENDS Timelock, TLC, Json

CONSTANTS Univ,      \* "std": A (no predecessor), B (pred A), C (pred G, G never scheduled), D (target fails)
                     \* "self": A names itself as predecessor (cannot be built with a real hash: design only)
          Sched,     \* ids the model schedules / executes (cancel is tried on every id)
          Delays,    \* delays offered to schedule
          Mins,      \* values offered to set_min_delay
          DTs,       \* ledgers advanced before a call
          HashIds,   \* ids on which hash_operation comparisons are generated (dt = 0 only)
          Depth, Now0, Min0,
          BUG,       \* "none" | "early" | "cancel_done" | "self_pred" | "resched" : seeded design bugs
          Emit

VARIABLES led,       \* id -> 0 | 1 | ready ledger
          minD, calls, tot, now, g, viol, hist

vars == <<led, minD, calls, tot, now, g, viol, hist>>
View == <<led, minD, calls, tot, now, g, viol, Len(hist)>>

P == IF Univ = "self"
     THEN [A |-> "A", B |-> "A", C |-> "G", D |-> "none", G |-> "none"]
     ELSE [A |-> "none", B |-> "A", C |-> "G", D |-> "none", G |-> "none"]
AllIds == DOMAIN P
Boom == {"D"}        \* operations whose target function panics

(* the code, in its own order of checks ------------------------------------*)
\* get_operation_state
StateOf(l, t) == CASE l = 0 -> "Unset"
                   [] l = 1 -> "Done"
                   [] l > t + (IF BUG = "early" THEN 1 ELSE 0) -> "Waiting"
                   [] OTHER -> "Ready"

ImplOk(o, t) ==
  CASE o.op = "schedule" -> /\ (StateOf(led[o.id], t) = "Unset" \/ (BUG = "resched" /\ led[o.id] # 1))
                            /\ o.delay >= minD
    [] o.op = "execute"  -> /\ StateOf(led[o.id], t) = "Ready"
                            /\ \/ P[o.id] = NoPred
                               \/ StateOf(led[P[o.id]], t) = "Done"
                               \/ (BUG = "self_pred" /\ P[o.id] = o.id)
                            /\ o.id \notin Boom                      \* the target's panic rolls everything back
    [] o.op = "cancel"   -> \/ StateOf(led[o.id], t) \in {"Waiting", "Ready"}
                            \/ (BUG = "cancel_done" /\ led[o.id] = 1)
    [] o.op = "set_min_delay" -> TRUE
    [] o.op = "hash"     -> TRUE

ImplEffect(o, t) ==
  CASE o.op = "schedule" -> led' = [led EXCEPT ![o.id] = SatAdd(t, o.delay)] /\ UNCHANGED <<minD, calls, tot>>
    [] o.op = "execute"  -> /\ led' = [led EXCEPT ![o.id] = 1]
                            /\ calls' = [calls EXCEPT ![o.id] = @ + 1] /\ tot' = tot + 1
                            /\ UNCHANGED minD
    [] o.op = "cancel"   -> led' = [led EXCEPT ![o.id] = 0] /\ UNCHANGED <<minD, calls, tot>>
    [] o.op = "set_min_delay" -> minD' = o.delay /\ UNCHANGED <<led, calls, tot>>
    [] o.op = "hash"     -> UNCHANGED <<led, minD, calls, tot>>

Ops == [op : {"schedule"}, id : Sched, delay : Delays, chg : {"none"}]
       \cup [op : {"execute"}, id : Sched, delay : {0}, chg : {"none"}]
       \cup [op : {"cancel"}, id : AllIds \ Boom, delay : {0}, chg : {"none"}]
       \cup [op : {"set_min_delay"}, id : {"none"}, delay : Mins, chg : {"none"}]
HashOps == [op : {"hash"}, id : HashIds, delay : {0}, chg : Chg]

Init == /\ led = [i \in AllIds |-> 0] /\ minD = Min0 /\ calls = [i \in AllIds |-> 0] /\ tot = 0
        /\ now = Now0 /\ g = GInit(P, Min0) /\ viol = {} /\ hist = <<>>

ObsOf(o, ok, t) ==
  [min |-> minD', total |-> tot',
   same |-> (o.op = "hash" /\ o.chg = "none"), retid |-> (o.op = "schedule" /\ ok),
   ops |-> [i \in AllIds |->
             LET s == StateOf(led'[i], t) IN
             [state |-> s, ledger |-> led'[i], exists |-> s # "Unset", pending |-> s \in {"Waiting", "Ready"},
              ready |-> s = "Ready", done |-> s = "Done", calls |-> calls'[i]]]]

Step(o, dt) ==
  LET t  == now + dt
      ok == ImplOk(o, t)
      ev == [op |-> o, now |-> t, res |-> IF ok THEN "ok" ELSE "fail", obs |-> ObsOf(o, ok, t)]
  IN /\ now' = t
     /\ IF ok THEN ImplEffect(o, t) ELSE UNCHANGED <<led, minD, calls, tot>>
     /\ g' = GNext(g, ev)
     /\ viol' = viol \cup {<<m, Key(m, g, ev)>> : m \in Failing(g, ev)}
     /\ hist' = Append(hist, [op |-> o.op, id |-> o.id, delay |-> o.delay, chg |-> o.chg,
                              dt |-> dt, exp |-> ev.res])

\* the depth bound is an enabling condition (not only the CONSTRAINT Bound): every generated
\* transition is judged by the monitors, checked against the invariants and emitted
Next == /\ Len(hist) < Depth
        /\ \/ \E dt \in DTs : \E o \in Ops : Step(o, dt)
           \/ \E o \in HashOps : Step(o, 0)

Spec == Init /\ [][Next]_vars

Bound == Len(hist) <= Depth

EmitReplay == Emit => PrintT(<<"REPLAY", ToJson(hist')>>)

(* what TLC checks ----------------------------------------------------------*)
NoViolation == viol = {}

\* the stored ledgers, the minimum delay and the target's log are the image of the ghost state
Refines == /\ \A i \in AllIds : led[i] = ExpOp(g.o[i], 0, now).ledger
           /\ minD = g.min
           /\ calls = g.execs /\ tot = Sum(calls)
=============================================================================
