-------------------------------- MODULE Rwa --------------------------------
(***************************************************************************)
(* Property-level specification of the RWA (T-REX) token of                *)
(* packages/tokens/src/rwa: property C04 ("RWA tokens never move past the   *)
(* compliance, identity, freeze and pause gates"), the RWA flavour of C01   *)
(* (supply conservation) and of C02 (movements need the holder's            *)
(* authorization or a live allowance).                                      *)
(*                                                                         *)
(* Pure operators over a ghost record `g` and an event `ev`; the same       *)
(* operators judge every transition of MC_Rwa (TLC, exhaustive) and every   *)
(* step recorded from the real contracts (Trace_Rwa).                       *)
(*                                                                         *)
(*   ev = [op    |-> [op, from, to, sp, amt, flag, until, auth, dt],        *)
(*         now   |-> ledger sequence at the call,                           *)
(*         res   |-> "ok" | "fail",                                         *)
(*         obs   |-> [supply, bal[a], frozen[a], afrozen[a], paused,        *)
(*                    allow[o][s]]          public getters after the call   *)
(*         calls |-> << [k, from, to, amt, tok] >>  what the compliance     *)
(*                    contract was asked / told during this call, in order  *)
(*                    (k \in can_transfer, can_create, transferred,         *)
(*                    created, destroyed; tok = "the token argument was     *)
(*                    this token")]                                         *)
(*                                                                         *)
(* op.op                 from      to        sp         amt   flag  until   *)
(*   mint                -         recipient operator   x                   *)
(*   transfer            sender    receiver  -          x                   *)
(*   transfer_from       sender    receiver  spender    x                   *)
(*   approve             owner     -         spender    x           x       *)
(*   forced_transfer     sender    receiver  operator   x                   *)
(*   burn                holder    -         operator   x                   *)
(*   recover             old       new       operator                       *)
(*   freeze / unfreeze   holder    -         operator   x                   *)
(*   set_frozen          holder    -         operator         x             *)
(*   pause / unpause     -         -         caller                         *)
(* harness-level reconfiguration of the mock collaborators (never judged):  *)
(*   set_id              account   -         -                x             *)
(*   set_ct / set_cc     -         -         -                x             *)
(*   set_rec             old       target|none                              *)
(***************************************************************************)
EXTENDS Integers, Sequences, FiniteSets

NoOne == "none"

MinOf(a, b) == IF a <= b THEN a ELSE b

RECURSIVE SumOver(_, _)
SumOver(f, S) == IF S = {} THEN 0
                 ELSE LET x == CHOOSE y \in S : TRUE IN f[x] + SumOver(f, S \ {x})

(* ghost state ------------------------------------------------------------*)
\* bal, supply, allow[o][s] = [amt, until]  : the fungible part
\* frozen[a] (partially frozen amount), afrozen[a] (address freeze), paused : the token's gates
\* idok[a], ct, cc, rec[a] : what the identity verifier / compliance contract currently answer
GInit(A) == [bal     |-> [a \in A |-> 0],
             supply  |-> 0,
             allow   |-> [o \in A |-> [s \in A |-> [amt |-> 0, until |-> 0]]],
             frozen  |-> [a \in A |-> 0],
             afrozen |-> [a \in A |-> FALSE],
             paused  |-> FALSE,
             idok    |-> [a \in A |-> TRUE],
             ct      |-> TRUE,
             cc      |-> TRUE,
             rec     |-> [a \in A |-> NoOne],
             evbal   |-> [a \in A |-> 0]]          \* balances replayed from the emitted mint / burn / transfer events

Accts(g) == DOMAIN g.bal

\* an observed allowance agrees with the ghost value v: equal, or lapsed to zero (the property bounds an
\* allowance from above only: an implementation may let it expire earlier than its live_until_ledger)
AllowSame(x, v) == x = v \/ x = 0
\* what allowance(o, s) is worth at ledger t
AllowAt(g, o, s, t) == IF g.allow[o][s].until >= t THEN g.allow[o][s].amt ELSE 0

Move(b, from, to, amt) == LET b1 == [b EXCEPT ![from] = @ - amt] IN [b1 EXCEPT ![to] = @ + amt]

SupervisoryOps == {"forced_transfer", "burn", "recover"}
TransferOps    == {"transfer", "transfer_from", "forced_transfer"}
Setters        == {"set_id", "set_ct", "set_cc", "set_rec"}

\* Only successful steps change the ghost state.  ev.obs is consulted in exactly two places
\* where the property leaves a value open: the frozen amount after a forced transfer to oneself
\* (any value between "as if debited" and "untouched"), and the address-freeze flags around a
\* recovery that the property does not determine (the old account's flag; the target's flag when
\* there was nothing to recover).
GNext0(g, ev) ==
  LET o == ev.op  k == o.op IN
  IF ev.res # "ok" THEN g ELSE
  CASE k = "mint"     -> [g EXCEPT !.bal[o.to] = @ + o.amt, !.supply = @ + o.amt]
    [] k = "transfer" -> [g EXCEPT !.bal = Move(@, o.from, o.to, o.amt)]
    [] k = "transfer_from" ->
         [g EXCEPT !.bal = Move(@, o.from, o.to, o.amt),
                   !.allow[o.from][o.sp] = IF o.amt > 0
                                           THEN [amt |-> AllowAt(g, o.from, o.sp, ev.now) - o.amt, until |-> @.until]
                                           ELSE @]
    [] k = "approve" -> [g EXCEPT !.allow[o.from][o.sp] = [amt |-> o.amt, until |-> o.until]]
    [] k = "forced_transfer" ->
         [g EXCEPT !.bal = Move(@, o.from, o.to, o.amt),
                   !.frozen[o.from] = IF o.from = o.to THEN ev.obs.frozen[o.from]
                                      ELSE MinOf(@, g.bal[o.from] - o.amt)]
    [] k = "burn" ->
         [g EXCEPT !.bal[o.from] = @ - o.amt, !.supply = @ - o.amt,
                   !.frozen[o.from] = MinOf(@, g.bal[o.from] - o.amt)]
    [] k = "recover" ->
         IF g.bal[o.from] = 0 \/ o.from = o.to
         THEN [g EXCEPT !.afrozen[o.to] = IF g.bal[o.from] = 0 THEN ev.obs.afrozen[o.to] ELSE @]
         ELSE [g EXCEPT !.bal = Move(@, o.from, o.to, g.bal[o.from]),
                        !.frozen = [@ EXCEPT ![o.to] = @ + g.frozen[o.from], ![o.from] = 0],
                        !.afrozen = [@ EXCEPT ![o.to] = @ \/ g.afrozen[o.from],
                                              ![o.from] = ev.obs.afrozen[o.from]]]
    [] k = "freeze"     -> [g EXCEPT !.frozen[o.from] = @ + o.amt]
    [] k = "unfreeze"   -> [g EXCEPT !.frozen[o.from] = @ - o.amt]
    [] k = "set_frozen" -> [g EXCEPT !.afrozen[o.from] = o.flag]
    [] k = "pause"      -> [g EXCEPT !.paused = TRUE]
    [] k = "unpause"    -> [g EXCEPT !.paused = FALSE]
    [] k = "set_id"     -> [g EXCEPT !.idok[o.from] = o.flag]
    [] k = "set_ct"     -> [g EXCEPT !.ct = o.flag]
    [] k = "set_cc"     -> [g EXCEPT !.cc = o.flag]
    [] k = "set_rec"    -> [g EXCEPT !.rec[o.from] = o.to]
    [] OTHER            -> g

\* replaying the token's emitted mint, burn and transfer events (ev.evs: sequence of [k, f, t, x])
RECURSIVE Replay(_, _)
Replay(b, evs) ==
  IF evs = << >> THEN b
  ELSE LET e == Head(evs)
           b1 == IF e.k \in {"transfer", "burn"} /\ e.f \in DOMAIN b THEN [b EXCEPT ![e.f] = @ - e.x] ELSE b
           b2 == IF e.k \in {"transfer", "mint"} /\ e.t \in DOMAIN b1 THEN [b1 EXCEPT ![e.t] = @ + e.x] ELSE b1
       IN Replay(b2, Tail(evs))
GNext(g, ev) == [GNext0(g, ev) EXCEPT !.evbal = Replay(g.evbal, ev.evs)]

(* compliance call log ------------------------------------------------------*)
Call(k, from, to, amt) == [k |-> k, from |-> from, to |-> to, amt |-> amt, tok |-> TRUE]
IsHook(c)  == c.k \in {"transferred", "created", "destroyed"}
Hooks(cs)  == SelectSeq(cs, IsHook)
Asked(cs, c) == \E i \in DOMAIN cs : cs[i] = c

(* monitors ---------------------------------------------------------------*)
Monitors == {"C04_gates", "C04_frozen_inv", "C04_supervisory_min", "C04_recovery",
             "C04_compliance_log", "C04_auth", "C04_gate_state",
             "C01_rwa_sum", "C01_rwa_delta", "C01_rwa_fail", "C01_rwa_events",
             "C02_rwa_debit", "C02_rwa_allow"}

PropOf(m) == CASE m \in {"C01_rwa_sum", "C01_rwa_delta", "C01_rwa_fail", "C01_rwa_events"} -> "C01"
               [] m \in {"C02_rwa_debit", "C02_rwa_allow"}               -> "C02"
               [] OTHER                                                  -> "C04"

\* the individual gates of a holder-initiated transfer, named for the classification key
GateFailures(g, ev) ==
  LET o == ev.op IN
  IF o.op \in {"transfer", "transfer_from"} THEN
       (IF g.paused THEN {"paused"} ELSE {})
  \cup (IF g.afrozen[o.from] \/ g.afrozen[o.to] THEN {"address_frozen"} ELSE {})
  \cup (IF o.amt > g.bal[o.from] - g.frozen[o.from] THEN {"frozen_tokens"} ELSE {})
  \cup (IF ~g.idok[o.from] \/ ~g.idok[o.to] THEN {"identity"} ELSE {})
  \cup (IF ~g.ct \/ ~Asked(ev.calls, Call("can_transfer", o.from, o.to, o.amt)) THEN {"compliance"} ELSE {})
  ELSE \* mint
       (IF ~g.idok[o.to] THEN {"identity"} ELSE {})
  \cup (IF ~g.cc \/ ~Asked(ev.calls, Call("can_create", NoOne, o.to, o.amt)) THEN {"compliance"} ELSE {})

\* the compliance notifications the property demands for this step
ExpectedHooks(g, ev) ==
  LET o == ev.op IN
  IF ev.res # "ok" THEN {<<>>}
  ELSE CASE o.op \in TransferOps -> {<<Call("transferred", o.from, o.to, o.amt)>>}
         [] o.op = "mint"        -> {<<Call("created", NoOne, o.to, o.amt)>>}
         [] o.op = "burn"        -> {<<Call("destroyed", o.from, NoOne, o.amt)>>}
         [] o.op = "recover"     -> IF g.bal[o.from] > 0
                                    THEN {<<Call("transferred", o.from, o.to, g.bal[o.from])>>}
                                    ELSE {<<>>, <<Call("transferred", o.from, o.to, 0)>>}
         [] OTHER                -> {<<>>}

\* every monitor is  Ante => Cons ; Ante is also what the trace checker counts as a non-trivial
\* evaluation of the monitor
Ante(m, g, ev) ==
  LET o == ev.op  ok == ev.res = "ok" IN
  CASE m = "C04_gates"           -> ok /\ o.op \in {"transfer", "transfer_from", "mint"}
    [] m = "C04_frozen_inv"      -> TRUE
    [] m = "C04_supervisory_min" -> ok /\ o.op \in {"forced_transfer", "burn"}
    [] m = "C04_recovery"        -> ok /\ o.op = "recover"
    [] m = "C04_compliance_log"  -> TRUE
    [] m = "C04_auth"            -> ok /\ o.op \in {"transfer", "transfer_from"}
    [] m = "C04_gate_state"      -> TRUE
    [] m = "C01_rwa_sum"         -> TRUE
    [] m = "C01_rwa_delta"       -> ok
    [] m = "C01_rwa_fail"        -> ~ok
    [] m = "C01_rwa_events"      -> TRUE
    [] m = "C02_rwa_debit"       -> \E a \in Accts(g) : ev.obs.bal[a] < g.bal[a]
    [] m = "C02_rwa_allow"       -> TRUE

\* transfer: the holder authorizes; transfer_from: the spender authorizes and holds a live
\* allowance of at least the amount, which drops by exactly the amount
MovementAuthorized(g, ev) ==
  LET o == ev.op IN
  CASE o.op = "transfer"      -> o.from \in o.auth
    [] o.op = "transfer_from" -> /\ o.sp \in o.auth
                                 /\ AllowAt(g, o.from, o.sp, ev.now) >= o.amt
                                 \* (a spend of nothing may find the allowance lapsed to zero)
                                 /\ IF o.amt > 0
                                    THEN ev.obs.allow[o.from][o.sp] = AllowAt(g, o.from, o.sp, ev.now) - o.amt
                                    ELSE AllowSame(ev.obs.allow[o.from][o.sp], AllowAt(g, o.from, o.sp, ev.now))
    [] OTHER -> FALSE

Cons(m, g, ev) ==
  LET o == ev.op  ok == ev.res = "ok"  A == Accts(g)  n == GNext(g, ev)  obs == ev.obs IN
  CASE m = "C04_gates" -> GateFailures(g, ev) = {}
    [] m = "C04_frozen_inv" -> \A a \in A : 0 <= obs.frozen[a] /\ obs.frozen[a] <= obs.bal[a]
    \* the debited account keeps frozen whatever still fits under its balance after the debit
    \* (never more unfrozen than needed, never anything newly frozen); nobody else is touched
    [] m = "C04_supervisory_min" ->
         /\ obs.frozen[o.from] >= MinOf(g.frozen[o.from], g.bal[o.from] - o.amt)
         /\ obs.frozen[o.from] <= g.frozen[o.from]
         /\ \A a \in A \ {o.from} : obs.frozen[a] = g.frozen[a]
         /\ \A a \in A : obs.afrozen[a] = g.afrozen[a]
    \* the whole balance, its frozen part and the address freeze go to the registered target only
    [] m = "C04_recovery" ->
         LET moved == g.bal[o.from] > 0 IN
         /\ (moved => g.rec[o.from] = o.to)
         /\ \A a \in A : obs.bal[a] = n.bal[a] /\ obs.frozen[a] = n.frozen[a]
         /\ \A a \in A \ {o.from, o.to} : obs.afrozen[a] = g.afrozen[a]
         /\ (moved => obs.afrozen[o.to] = (g.afrozen[o.to] \/ g.afrozen[o.from]))
         /\ (~moved => /\ obs.afrozen[o.to] \in {g.afrozen[o.to], g.afrozen[o.to] \/ g.afrozen[o.from]}
                       /\ (g.rec[o.from] # o.to => obs.afrozen[o.to] = g.afrozen[o.to]))
         /\ (o.from # o.to => (obs.afrozen[o.from] => g.afrozen[o.from]))
    [] m = "C04_compliance_log" -> Hooks(ev.calls) \in ExpectedHooks(g, ev)
    [] m = "C04_auth" -> MovementAuthorized(g, ev)
    \* the gate state reported by paused / is_frozen / get_frozen_tokens follows the freeze and
    \* pause operations and nothing else
    [] m = "C04_gate_state" ->
         /\ obs.paused = n.paused
         /\ \A a \in A : obs.frozen[a] = n.frozen[a] /\ obs.afrozen[a] = n.afrozen[a]
    [] m = "C01_rwa_sum" -> /\ obs.supply = SumOver(obs.bal, A)
                            /\ \A a \in A : obs.bal[a] >= 0
    \* supply: +amount on mint, -amount on burn, unchanged otherwise; balances: exactly the named
    \* parties by exactly the amount (recovery is only required to conserve here; C04_recovery
    \* decides what it must move)
    [] m = "C01_rwa_delta" ->
         /\ obs.supply = n.supply
         /\ (o.op # "recover" => \A a \in A : obs.bal[a] = n.bal[a])
    \* replaying the emitted mint / burn / transfer events from genesis reproduces every balance
    [] m = "C01_rwa_events" -> \A a \in A : Replay(g.evbal, ev.evs)[a] = obs.bal[a]
    [] m = "C01_rwa_fail" ->
         /\ obs.supply = g.supply
         /\ \A a \in A : obs.bal[a] = g.bal[a] /\ obs.frozen[a] = g.frozen[a]
         /\ \A a, b \in A : AllowSame(obs.allow[a][b], AllowAt(g, a, b, ev.now))
    \* a balance decreases only in a supervisory operation, or in the holder's / spender's own call
    [] m = "C02_rwa_debit" ->
         /\ ok
         /\ \/ o.op \in SupervisoryOps
            \/ /\ o.op \in {"transfer", "transfer_from"}
               /\ \A a \in A : obs.bal[a] < g.bal[a] => a = o.from
               /\ MovementAuthorized(g, ev)
    \* allowances change only by an approve the owner authorized, or by a spend
    [] m = "C02_rwa_allow" ->
         /\ \A a, b \in A : AllowSame(obs.allow[a][b], AllowAt(n, a, b, ev.now))
         /\ (ok /\ o.op = "approve" => o.from \in o.auth)

Holds(m, g, ev) == Ante(m, g, ev) => Cons(m, g, ev)

\* classification used to match entries of known_findings.json
Key(m, g, ev) ==
  IF m = "C04_gates" THEN
    LET f == GateFailures(g, ev) IN
    ev.op.op \o ":" \o
    (IF "paused" \in f THEN "paused" ELSE IF "address_frozen" \in f THEN "address_frozen"
     ELSE IF "frozen_tokens" \in f THEN "frozen_tokens" ELSE IF "identity" \in f THEN "identity"
     ELSE IF "compliance" \in f THEN "compliance" ELSE "none")
  ELSE IF m \in {"C04_frozen_inv", "C04_compliance_log", "C04_gate_state", "C01_rwa_fail", "C02_rwa_debit",
                 "C02_rwa_allow", "C01_rwa_delta", "C01_rwa_sum", "C01_rwa_events"}
  THEN ev.op.op
  ELSE "other"

Failing(g, ev) == {m \in Monitors : ~Holds(m, g, ev)}
=============================================================================
