-------------------------- MODULE Trace_Registries --------------------------
(***************************************************************************)
(* Trace validation: reads the ndjson trace recorded from the real         *)
(* registries (env TRACE), advances the ghost state of Registries.tla by   *)
(* each recorded step and evaluates every monitor of the run's flavour on  *)
(* it.  Violations are collected (printed as VIOL lines); after a          *)
(* violation the rest of that run is skipped and validation resumes at the *)
(* next reset event.  `cnt` counts, per monitor, the steps on which its    *)
(* antecedent held.  A reset event names the flavour and the capacity      *)
(* limits (the library's public constants) and carries the getters of the  *)
(* freshly registered, empty registry, which are judged as well.  Steps    *)
(* carry the returned value in `ret` (claims: the id add_claim returned).  *)
(***************************************************************************)
EXTENDS Registries, TLC, Json, IOUtils

Rec == ndJsonDeserialize(IOEnv.TRACE)

VARIABLES l, g, dead, cnt
vars == <<l, g, dead, cnt>>

Norm(ev) == [ev EXCEPT !.op = [op |-> ev.op.op, a |-> ev.op.a, b |-> ev.op.b, c |-> ev.op.c,
                                xs |-> ev.op.xs, n |-> ev.op.n]]

\* coverage counters next to the monitors': calls refused one past a limit / accepted exactly at a limit
Extra == {"over_" \o n : n \in LimitNames} \cup {"at_" \o n : n \in LimitNames}
Bump(c, g0, ev) ==
  IF ~Mine(g0, ev) THEN 0
  ELSE IF \E n \in OverSet(g0, ev.op) : c = "over_" \o n THEN 1
  ELSE IF \E n \in AtSet(g0, ev.op) : c = "at_" \o n THEN 1
  ELSE 0

Init == /\ l = 1
        /\ g = GInit("?", [none |-> 0], [full |-> FALSE])
        /\ dead = FALSE
        /\ cnt = [m \in Monitors \cup Extra |-> 0]

Report(ev, m, key) == PrintT(<<"VIOL", ToJson([run |-> ev.run, i |-> ev.i, line |-> l, mon |-> m,
                                               prop |-> PropOf(m), key |-> key])>>)

Next ==
  /\ l <= Len(Rec)
  /\ l' = l + 1
  /\ LET raw == Rec[l] IN
     IF raw.op.op = "reset" THEN
       LET g0  == GInit(raw.op.flavour, raw.op.lim, raw.obs)
           \* (claims: the id table of the universe is judged on the fresh registry as well)
           bad == {k \in {"query", "enum"} \cup (IF g0.fl = "claims" THEN {"ids"} ELSE {}) :
                     ~(CASE k = "query" -> QueryOk(g0, raw.obs)
                         [] k = "enum" -> EnumOk(g0, raw.obs)
                         [] OTHER      -> IdsClaims(g0, raw))} IN
       /\ \A k \in bad : Report(raw, MonName(g0.fl, k), "fresh_registry")
       /\ g' = g0 /\ dead' = (bad # {}) /\ UNCHANGED cnt
     ELSE IF dead THEN UNCHANGED <<g, dead, cnt>>
     ELSE LET ev == Norm(raw)  f == Failing(g, ev) IN
          /\ \A m \in f : Report(ev, m, Key(m, g, ev))
          /\ dead' = (f # {})
          /\ g' = GNext(g, ev)
          /\ cnt' = [m \in Monitors \cup Extra |->
                       cnt[m] + IF m \in Monitors THEN (IF Ante(m, g, ev) THEN 1 ELSE 0) ELSE Bump(m, g, ev)]
  /\ (l = Len(Rec) => PrintT(<<"DONE", l, ToJson(cnt')>>))

Spec == Init /\ [][Next]_vars
=============================================================================
