---------------------------- MODULE Trace_Merkle ----------------------------
(***************************************************************************)
(* Trace validation for Merkle.tla (see Trace_RoleTransfer for the         *)
(* conventions): one state per recorded line, violations collected.  The   *)
(* reset event carries the run's flavour ("sha" | "kec" | "airdrop") and   *)
(* mode ("s" | "p").                                                       *)
(***************************************************************************)
EXTENDS Merkle, TLC, Json, IOUtils

Rec == ndJsonDeserialize(IOEnv.TRACE)

VARIABLES l, g, dead, cnt
vars == <<l, g, dead, cnt>>

ToSet(s) == {s[i] : i \in DOMAIN s}
NormObs(obs) == [claimed |-> ToSet(obs.claimed), bal |-> obs.bal, pool |-> obs.pool]
Norm(ev) == [op |-> [op |-> ev.op.op, n |-> ev.op.n, style |-> ev.op.style, salt |-> ev.op.salt,
                     pos |-> ev.op.pos, corr |-> ev.op.corr, i |-> ev.op.i, j |-> ev.op.j],
             res |-> ev.res, ret |-> ev.ret, obs |-> NormObs(ev.obs), run |-> ev.run, i |-> ev.i]

G0 == [flavour |-> "none"]
Init == l = 1 /\ g = G0 /\ dead = FALSE /\ cnt = [m \in Monitors |-> 0]

Report(ev, m) == PrintT(<<"VIOL", ToJson([run |-> ev.run, i |-> ev.i, line |-> l, mon |-> m,
                                          prop |-> PropOf(m), key |-> Key(m, g, ev)])>>)

Next ==
  /\ l <= Len(Rec)
  /\ l' = l + 1
  /\ LET raw == Rec[l] IN
     IF raw.op.op = "reset"
     THEN /\ g' = GInit(raw.op.flavour, raw.op.mode, NormObs(raw.obs))
          /\ dead' = FALSE /\ UNCHANGED cnt
     ELSE IF dead THEN UNCHANGED <<g, dead, cnt>>
     ELSE LET ev == Norm(raw)  f == Failing(g, ev) IN
          /\ \A m \in f : Report(ev, m)
          /\ dead' = (f # {})
          /\ g' = GNext(g, ev)
          /\ cnt' = [m \in Monitors |-> cnt[m] + IF Ante(m, g, ev) THEN 1 ELSE 0]
  /\ (l = Len(Rec) => PrintT(<<"DONE", l, ToJson(cnt')>>))

Spec == Init /\ [][Next]_vars
=============================================================================
