---------------------------- MODULE Trace_Access ----------------------------
(***************************************************************************)
(* Trace validation: reads the ndjson trace recorded from the real         *)
(* contract (env TRACE), advances the ghost state of Access.tla by each    *)
(* recorded step and evaluates every monitor on it.  Violations are        *)
(* collected (printed as VIOL lines); after a violation the rest of that   *)
(* run is skipped and validation resumes at the next reset event.          *)
(* `cnt` counts, per monitor, the steps on which its antecedent held.      *)
(* A reset event names the preset that the harness established by          *)
(* authorized set-up calls; the first judged step compares every getter    *)
(* with it (C06_enum).                                                      *)
(***************************************************************************)
EXTENDS Access, TLC, Json, IOUtils

Rec == ndJsonDeserialize(IOEnv.TRACE)

VARIABLES l, g, dead, cnt
vars == <<l, g, dead, cnt>>

Norm(ev) == [ev EXCEPT !.op = [op |-> ev.op.op, acct |-> ev.op.acct, role |-> ev.op.role,
                                arole |-> ev.op.arole, caller |-> ev.op.caller,
                                auth |-> SeqToSet(ev.op.auth)]]

Init == l = 1 /\ g = GInit(NoOne, "fresh") /\ dead = FALSE /\ cnt = [m \in Monitors |-> 0]

Report(ev, m) == PrintT(<<"VIOL", ToJson([run |-> ev.run, i |-> ev.i, line |-> l, mon |-> m,
                                          prop |-> PropOf(m), key |-> Key(m, g, ev)])>>)

Next ==
  /\ l <= Len(Rec)
  /\ l' = l + 1
  /\ LET raw == Rec[l] IN
     IF raw.op.op = "reset" THEN g' = GInit(raw.obs.admin, raw.op.preset) /\ dead' = FALSE /\ UNCHANGED cnt
     ELSE IF dead THEN UNCHANGED <<g, dead, cnt>>
     ELSE LET ev == Norm(raw)  f == Failing(g, ev) IN
          /\ \A m \in f : Report(ev, m)
          /\ dead' = (f # {})
          /\ g' = GNext(g, ev)
          /\ cnt' = [m \in Monitors |-> cnt[m] + IF Ante(m, g, ev) THEN 1 ELSE 0]
  /\ (l = Len(Rec) => PrintT(<<"DONE", l, ToJson(cnt')>>))

Spec == Init /\ [][Next]_vars
=============================================================================
