------------------------------- MODULE MulDiv -------------------------------
(***************************************************************************)
(* Property-level specification of the fixed-point mul-div family          *)
(* (packages/contract-utils/src/math: i128_fixed_point, i256_fixed_point,  *)
(* wad).  Source of truth for C12.  Every statement is made by definition  *)
(* with multiplications and comparisons over BigInt values - no division.  *)
(*                                                                         *)
(* Event: [fn, mode, x, y, d, res, q, has2, cres, cq]                      *)
(*   fn   \in {"i128", "i256", "wad_mul", "wad_div", "wad_ratio", "wad_pow"}*)
(*   mode \in {"floor", "ceil", "trunc"}                                   *)
(*   x, y, d, q, cq : logged numbers [n |-> 0|1, m |-> limbs base 2^15]    *)
(*   res / q   : result of the plain (panicking) variant, or of the only   *)
(*               variant; cres / cq : result of the checked variant when   *)
(*               has2.  For the Wad functions the harness logs the         *)
(*               equivalent mul-div operands (a*b/10^18, a*10^18/b, ...).  *)
(***************************************************************************)
EXTENDS Integers, Sequences
INSTANCE BigInt WITH Base <- 32768

LB == 15
RECURSIVE P2(_)
P2(k) == IF k = 0 THEN 1 ELSE 2 * P2(k - 1)
\* a * 2^k by limb shifting (no general multiplication)
Shl(a, k) == IF a.mag = <<>> THEN Zero
             ELSE Mk(a.neg, Zeros(k \div LB) \o MagMulLimbFrom(a.mag, P2(k % LB), 1, 0))
PowTwo(k) == Shl(One, k)

Width(fn) == IF fn = "i256" THEN 256 ELSE 128
Min128 == BNeg(PowTwo(127))
Max128 == BSub(PowTwo(127), One)
Min256 == BNeg(PowTwo(255))
Max256 == BSub(PowTwo(255), One)
Fits(a, w) == IF w = 128 THEN BLe(Min128, a) /\ BLe(a, Max128) ELSE BLe(Min256, a) /\ BLe(a, Max256)

Pos(a) == BSign(a) > 0
Neg0(a) == BSign(a) < 0
IsZero(a) == BSign(a) = 0

\* q is p/d rounded in the given mode  (r = p - q*d)
Exact(mode, p, q, d) ==
  \E r \in {BSub(p, BMul(q, d))} :
  CASE mode = "floor" -> IF Pos(d) THEN BLe(Zero, r) /\ BLt(r, d) ELSE BLt(d, r) /\ BLe(r, Zero)
    [] mode = "ceil"  -> IF Pos(d) THEN BLt(BNeg(d), r) /\ BLe(r, Zero) ELSE BLe(Zero, r) /\ BLt(r, BNeg(d))
    [] mode = "trunc" -> BLt(BAbs(r), BAbs(d)) /\ (IsZero(r) \/ BSign(r) = BSign(p))

\* the rounded quotient of p by d (d # 0) fits in w bits.  With H = 2^(w-1):
\*   (MAX+1)*d = H*d,  MIN*d = -H*d,  MAX*d = H*d - d,  (MIN-1)*d = -H*d - d
QF2(mode, p, d, hd, lod, hid, lo1d) ==
  CASE mode = "floor" -> IF Pos(d) THEN BLe(lod, p) /\ BLt(p, hd) ELSE BLt(hd, p) /\ BLe(p, lod)
    [] mode = "ceil"  -> IF Pos(d) THEN BLt(lo1d, p) /\ BLe(p, hid) ELSE BLe(hid, p) /\ BLt(p, lo1d)
    [] mode = "trunc" -> IF Pos(d) THEN BLt(lo1d, p) /\ BLt(p, hd) ELSE BLt(hd, p) /\ BLt(p, lo1d)
QuotFits(mode, p, d, w) ==
  \* hd = (MAX+1)*d, -hd = MIN*d, hd - d = MAX*d, -hd - d = (MIN-1)*d
  \E hd \in {Shl(d, w - 1)} : QF2(mode, p, d, hd, BNeg(hd), BSub(hd, d), BSub(BNeg(hd), d))

Monitors == {"C12_exact", "C12_fail_only", "C12_zero_den", "C12_agree", "C12_pow"}
PropOf(m) == "C12"

IsMulDiv(ev) == ev.fn # "wad_pow"

Ante(m, ev) ==
  CASE m = "C12_exact"     -> IsMulDiv(ev) /\ ev.res = "ok"
    [] m = "C12_fail_only" -> IsMulDiv(ev) /\ ev.res = "fail"
    [] m = "C12_zero_den"  -> IsMulDiv(ev) /\ IsZero(FromLog(ev.d))
    [] m = "C12_agree"     -> IsMulDiv(ev) /\ ev.has2
    [] m = "C12_pow"       -> ev.fn = "wad_pow"

Cons(m, ev) ==
  LET x == FromLog(ev.x)  y == FromLog(ev.y)  d == FromLog(ev.d)  q == FromLog(ev.q)
      p == BMul(x, y)  w == Width(ev.fn) IN
  \* a returned value is exactly the rounded quotient and fits the type
  CASE m = "C12_exact" -> /\ ~IsZero(d) /\ Fits(q, w)
                          /\ (ev.fn = "i256" /\ ~Fits(p, 256)) \/ Exact(ev.mode, p, q, d)
    \* an error is reported only when it must be
    [] m = "C12_fail_only" -> \/ IsZero(d) \/ ~QuotFits(ev.mode, p, d, w)
                              \/ (ev.fn = "i256" /\ ~Fits(p, 256))
    [] m = "C12_zero_den"  -> ev.res = "fail" /\ (ev.has2 => ev.cres = "fail")
    \* the panicking and the checked variant agree
    [] m = "C12_agree" -> ev.res = ev.cres /\ (ev.res = "ok" => BEq(q, FromLog(ev.cq)))
    \* pow fails exactly when checked_pow returns no value (and returns its value otherwise)
    [] m = "C12_pow"   -> ev.res = ev.cres /\ (ev.res = "ok" => BEq(q, FromLog(ev.cq)))

Holds(m, ev) == Ante(m, ev) => Cons(m, ev)
Key(m, ev) == "other"

\* the same judgement with every big value computed once: failing monitors and branch class
Sg(a) == IF Pos(a) THEN "p" ELSE IF Neg0(a) THEN "n" ELSE "z"
\* (bound variables of set constructors are values, so nothing big is evaluated twice;
\*  TLC re-evaluates LET definitions at every use)
Only(S) == CHOOSE r \in S : TRUE
J3(ev, x, y, d, q, cq, p, w, md, ok, dz, pfits256, qf, pn, ex) ==
  LET agree == ev.res = ev.cres /\ (ok => BEq(q, cq)) IN
  [fail |->
     (IF md /\ ok /\ ~(~dz /\ Fits(q, w) /\ (~pfits256 \/ ex)) THEN {"C12_exact"} ELSE {})
     \cup (IF md /\ ~ok /\ ~(dz \/ ~pfits256 \/ ~qf) THEN {"C12_fail_only"} ELSE {})
     \cup (IF md /\ dz /\ ~(~ok /\ (ev.has2 => ev.cres = "fail")) THEN {"C12_zero_den"} ELSE {})
     \cup (IF md /\ ev.has2 /\ ~agree THEN {"C12_agree"} ELSE {})
     \cup (IF ~md /\ ~agree THEN {"C12_pow"} ELSE {}),
   cls |-> IF ~md THEN "pow" ELSE IF dz THEN "zero_den"
           ELSE (IF pn THEN "narrow" ELSE "wide") \o "_" \o ev.mode \o "_" \o Sg(p) \o Sg(d)
                \o "_" \o (IF qf THEN "fits" ELSE "over"),
   ante |-> (IF md /\ ok THEN {"C12_exact"} ELSE {}) \cup (IF md /\ ~ok THEN {"C12_fail_only"} ELSE {})
            \cup (IF md /\ dz THEN {"C12_zero_den"} ELSE {}) \cup (IF md /\ ev.has2 THEN {"C12_agree"} ELSE {})
            \cup (IF ~md THEN {"C12_pow"} ELSE {})]
J2(ev, x, y, d, q, cq, p) ==
  LET w == Width(ev.fn)  md == ev.fn # "wad_pow"  ok == ev.res = "ok"  dz == IsZero(d) IN
  Only({J3(ev, x, y, d, q, cq, p, w, md, ok, dz, pf, qf, pn, ex) :
          pf \in {ev.fn # "i256" \/ Fits(p, 256)},
          qf \in {IF dz \/ ~md THEN FALSE ELSE QuotFits(ev.mode, p, d, w)},
          pn \in {Fits(p, 128)},
          ex \in {IF md /\ ok /\ ~dz THEN Exact(ev.mode, p, q, d) ELSE FALSE}})
Judge(ev) ==
  Only({Only({J2(ev, x, y, d, q, cq, p) : p \in {BMul(x, y)}}) :
          x \in {FromLog(ev.x)}, y \in {FromLog(ev.y)}, d \in {FromLog(ev.d)},
          q \in {FromLog(ev.q)}, cq \in {FromLog(ev.cq)}})
Failing(ev) == Judge(ev).fail

\* branch classes of an input, for coverage accounting (the same classification is computed
\* with native integers at small width by MC_MulDiv)
Classes == {"pow", "zero_den"} \cup
           {a \o "_" \o mo \o "_" \o sp \o sd \o "_" \o f :
              a \in {"narrow", "wide"}, mo \in {"floor", "ceil", "trunc"}, sp \in {"p", "n", "z"},
              sd \in {"p", "n"}, f \in {"fits", "over"}}
=============================================================================
