-------------------------------- MODULE Nft --------------------------------
(***************************************************************************)
(* Property-level specification of the non-fungible token of               *)
(* packages/tokens/src/non_fungible (base, enumerable and consecutive      *)
(* flavours).  Single source of truth for C10 (every NFT has exactly one   *)
(* owner and enumerations mirror ownership) and C11 (an NFT moves only by   *)
(* its owner, its approved account or a live operator).                     *)
(*                                                                         *)
(* Pure operators over a ghost record `g` and a recorded event             *)
(*   ev = [op  |-> [op, sp, from, to, id, n, until, auth, dt],             *)
(*         now |-> ledger sequence at the call,                            *)
(*         res |-> "ok" | "fail",                                          *)
(*         ret |-> id returned by mint_seq / last id returned by batch     *)
(*                 (-1 otherwise),                                         *)
(*         obs |-> public getters after the call]                          *)
(*   op.op \in {"mint_seq","mint_id","batch","transfer","transfer_from",   *)
(*              "burn","burn_from","approve","approve_for_all"}            *)
(*   obs = [owners : set of [id, o, u]     owner_of(id), "none" = fails;   *)
(*                                          u: token_uri(id) "ok" | "fail"   *)
(*          bal    : account -> balance(account)                           *)
(*          appr   : set of [id, who]      get_approved(id)                *)
(*          opall  : owner -> operator -> is_approved_for_all              *)
(*          supply, glob, glob_oob, otok, otok_oob : enumerable getters    *)
(*                   (supply = -1 when the flavour has none)]              *)
(*                                                                         *)
(* The ghost is SPARSE: batch intervals + an override map of the ids that  *)
(* were individually minted / moved / burned, so that real batches of      *)
(* 32 000 ids cost nothing.                                                *)
(***************************************************************************)
EXTENDS Integers, Sequences, FiniteSets, TLC

NoOne == "none"

Moves    == {"transfer", "transfer_from", "burn", "burn_from"}
Spenders == {"transfer_from", "burn_from"}
Burns    == {"burn", "burn_from"}

SeqToSet(s) == {s[i] : i \in DOMAIN s}
Drop(f, x)  == [y \in (DOMAIN f) \ {x} |-> f[y]]
Put(f, x, v) == (x :> v) @@ f

RECURSIVE SumLen(_)
SumLen(S) == IF S = {} THEN 0
             ELSE LET iv == CHOOSE i \in S : TRUE IN (iv.hi - iv.lo + 1) + SumLen(S \ {iv})

(* ghost state ------------------------------------------------------------*)
\* fl   : flavour ("base" | "enumerable" | "consecutive")
\* own  : id -> account | NoOne   for every id individually minted, moved or burned
\* ivs  : set of [lo, hi, o]      batches; an id of a batch that is not in `own` belongs to o
\* appr : id -> [who, until]      individual approvals in force (absent = none)
\* opr  : <<owner, operator>> -> until
\* seen : last observed enumeration getters (for "a failed call changes nothing")
EnumOf(obs) == [supply |-> obs.supply, glob |-> obs.glob, otok |-> obs.otok]

GInit(fl, obs) == [fl |-> fl, own |-> <<>>, ivs |-> {}, appr |-> <<>>, opr |-> <<>>, seen |-> EnumOf(obs)]

Covering(g, id) == {iv \in g.ivs : iv.lo <= id /\ id <= iv.hi}

OwnerG(g, id) ==
  IF id \in DOMAIN g.own THEN g.own[id]
  ELSE LET c == Covering(g, id) IN IF c = {} THEN NoOne ELSE (CHOOSE iv \in c : TRUE).o

Ever(g, id) == id \in DOMAIN g.own \/ Covering(g, id) # {}

\* number of tokens of account a (definition, not a running counter)
Count(g, a) ==
  LET mine == {iv \in g.ivs : iv.o = a}
      over == {id \in DOMAIN g.own : \E iv \in mine : iv.lo <= id /\ id <= iv.hi}
      dir  == {id \in DOMAIN g.own : g.own[id] = a}
  IN SumLen(mine) - Cardinality(over) + Cardinality(dir)

ApprovedG(g, id, now) ==
  IF id \in DOMAIN g.appr /\ g.appr[id].until >= now THEN g.appr[id].who ELSE NoOne

OperG(g, o, p, now) == <<o, p>> \in DOMAIN g.opr /\ g.opr[<<o, p>>] >= now

\* the account in whose name the call is made (the one that must authorize)
Principal(o) == IF o.op \in Spenders THEN o.sp ELSE o.from

GNext(g, ev) ==
  LET o == ev.op  h == [g EXCEPT !.seen = EnumOf(ev.obs)] IN
  IF ev.res # "ok" THEN h ELSE
  CASE o.op = "mint_seq" -> [h EXCEPT !.own = Put(g.own, ev.ret, o.to)]
    [] o.op = "mint_id"  -> [h EXCEPT !.own = Put(g.own, o.id, o.to)]
    [] o.op = "batch"    -> [h EXCEPT !.ivs = g.ivs \cup {[lo |-> ev.ret - o.n + 1, hi |-> ev.ret, o |-> o.to]}]
    [] o.op \in {"transfer", "transfer_from"}
                         -> [h EXCEPT !.own = Put(g.own, o.id, o.to), !.appr = Drop(g.appr, o.id)]
    [] o.op \in Burns    -> [h EXCEPT !.own = Put(g.own, o.id, NoOne), !.appr = Drop(g.appr, o.id)]
    [] o.op = "approve"  -> IF o.until = 0 THEN [h EXCEPT !.appr = Drop(g.appr, o.id)]
                            ELSE [h EXCEPT !.appr = Put(g.appr, o.id, [who |-> o.to, until |-> o.until])]
    [] o.op = "approve_for_all"
                         -> IF o.until = 0 THEN [h EXCEPT !.opr = Drop(g.opr, <<o.from, o.to>>)]
                            ELSE [h EXCEPT !.opr = Put(g.opr, <<o.from, o.to>>, o.until)]
    [] OTHER             -> h

\* is `id` a token the call is about?
IsTarget(ev, id) ==
  LET o == ev.op IN
  CASE o.op = "mint_seq" -> ev.res = "ok" /\ id = ev.ret
    [] o.op = "batch"    -> ev.res = "ok" /\ ev.ret - o.n + 1 <= id /\ id <= ev.ret
    [] o.op \in Moves \cup {"mint_id"} -> id = o.id
    [] OTHER             -> FALSE

LiveSet(g) == {id \in DOMAIN g.own : g.own[id] # NoOne}   \* enumerable flavour has no batches

(* monitors ---------------------------------------------------------------*)
Monitors == {"C10_owner", "C10_balance", "C10_enum", "C10_fresh", "C10_others", "C10_fail_unchanged", "C10_uri",
             "C11_move", "C11_approve", "C11_cleared", "C11_operator_scope", "C11_expiry"}

PropOf(m) == IF m \in {"C10_owner", "C10_balance", "C10_enum", "C10_fresh", "C10_others", "C10_fail_unchanged", "C10_uri"}
             THEN "C10" ELSE "C11"

EnumOk(g2, obs) ==
  LET live == LiveSet(g2) IN
  /\ obs.supply = Cardinality(live)
  /\ Len(obs.glob) = obs.supply /\ SeqToSet(obs.glob) = live      \* each live token exactly once, gap-free
  /\ obs.glob_oob = "fail"                                         \* index = total_supply is refused
  /\ \A a \in DOMAIN obs.otok :
        /\ Len(obs.otok[a]) = Count(g2, a)
        /\ SeqToSet(obs.otok[a]) = {id \in live : g2.own[id] = a}
        /\ obs.otok_oob[a] = "fail"

Ante(m, g, ev) ==
  LET o == ev.op  ok == ev.res = "ok"  own == OwnerG(g, o.id)  p == Principal(o) IN
  CASE m = "C10_owner"          -> TRUE
    [] m = "C10_balance"        -> TRUE
    [] m = "C10_uri"            -> TRUE
    [] m = "C10_enum"           -> g.fl = "enumerable"
    [] m = "C10_fresh"          -> ok /\ o.op \in {"mint_seq", "batch"}
    [] m = "C10_others"         -> TRUE
    [] m = "C10_fail_unchanged" -> ~ok
    [] m = "C11_move"           -> ok /\ o.op \in Moves
    [] m = "C11_approve"        -> ok /\ o.op = "approve"
    [] m = "C11_cleared"        -> ok /\ o.op \in Moves
    \* an operator approval was given; or somebody who is a live operator of ANOTHER account acted on
    \* this owner's token without holding the token's own approval
    [] m = "C11_operator_scope" -> ok /\ \/ o.op = "approve_for_all"
                                         \/ /\ o.op \in Moves \cup {"approve"}
                                            /\ own # NoOne /\ p # own
                                            /\ (o.op = "approve" \/ ApprovedG(g, o.id, ev.now) # p)
                                            /\ \E x \in DOMAIN g.opr : x[2] = p /\ x[1] # own /\ g.opr[x] >= ev.now
    [] m = "C11_expiry"         -> TRUE

\* g2 = GNext(g, ev), handed in so that it is computed once per event
ConsX(m, g, g2, ev) ==
  LET o == ev.op  auth == o.auth  now == ev.now  obs == ev.obs
      own == OwnerG(g, o.id)  p == Principal(o) IN
  CASE m = "C10_owner"   -> \A r \in obs.owners : r.o = OwnerG(g2, r.id)
    [] m = "C10_balance" -> \A a \in DOMAIN obs.bal : obs.bal[a] = Count(g2, a)
    \* token_uri answers for exactly the tokens that exist (the flavours check existence in their own ways)
    [] m = "C10_uri"     -> \A r \in obs.owners : (r.u = "ok") <=> (OwnerG(g2, r.id) # NoOne)
    [] m = "C10_enum"    -> EnumOk(g2, obs)
    [] m = "C10_fresh"   ->
         IF o.op = "mint_seq" THEN ev.ret >= 0 /\ ~Ever(g, ev.ret)
         ELSE LET lo == ev.ret - o.n + 1 IN
              /\ o.n >= 1 /\ lo >= 0
              /\ \A id \in DOMAIN g.own : ~(lo <= id /\ id <= ev.ret)
              /\ \A iv \in g.ivs : iv.hi < lo \/ ev.ret < iv.lo
    [] m = "C10_others"  -> \A r \in obs.owners : ~IsTarget(ev, r.id) => r.o = OwnerG(g, r.id)
    [] m = "C10_fail_unchanged" ->
         /\ \A r \in obs.owners : r.o = OwnerG(g, r.id)
         /\ \A a \in DOMAIN obs.bal : obs.bal[a] = Count(g, a)
         /\ EnumOf(obs) = g.seen
    [] m = "C11_move"    ->
         /\ own # NoOne /\ p \in auth
         /\ (p = own \/ ApprovedG(g, o.id, now) = p \/ OperG(g, own, p, now))
    [] m = "C11_approve" ->
         /\ own # NoOne /\ p \in auth
         /\ (p = own \/ OperG(g, own, p, now))
    [] m = "C11_cleared" ->
         /\ \E r \in obs.appr : r.id = o.id
         /\ \A r \in obs.appr : r.id = o.id => r.who = NoOne
    [] m = "C11_operator_scope" ->
         IF o.op = "approve_for_all" THEN o.from \in auth ELSE OperG(g, own, p, now)
    [] m = "C11_expiry"  ->
         /\ \A r \in obs.appr : r.who # NoOne => ApprovedG(g2, r.id, now) = r.who
         /\ \A a \in DOMAIN obs.opall : \A b \in DOMAIN obs.opall[a] :
               obs.opall[a][b] => OperG(g2, a, b, now)

Cons(m, g, ev) == ConsX(m, g, GNext(g, ev), ev)

Holds(m, g, ev) == Ante(m, g, ev) => Cons(m, g, ev)

Key(m, g, ev) == "other"

FailingX(g, g2, ev) == {m \in Monitors : Ante(m, g, ev) /\ ~ConsX(m, g, g2, ev)}
Failing(g, ev) == FailingX(g, GNext(g, ev), ev)
=============================================================================
