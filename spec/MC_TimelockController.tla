----------------------- MODULE MC_TimelockController -----------------------
(***************************************************************************)
(* Implementation-shaped model of examples/timelock-controller/src/        *)
(* contract.rs deployed as its own admin: the timelock's OperationLedger   *)
(* entries, MinDelay, the access-control state (role members, admin,       *)
(* pending admin, role admins) and __check_auth transcribed in the code's  *)
(* order (length check - absent when BUG_C09_ZIP - then per (context,      *)
(* descriptor) pair: context kind, target = self, executor role +          *)
(* authorization when any executor is configured, set_execute_operation).  *)
(***************************************************************************)
EXTENDS TimelockController, TLC, Json

CONSTANTS Execs0,      \* accounts holding the executor role at deployment
          SchedOps,    \* operations the model schedules / cancels / executes
          SchedWhos,   \* callers tried for schedule / cancel
          ExecWhos,    \* callers tried for execute_op ("none" = no executor argument)
          Auths,       \* subset of BOOLEAN: with / without the caller's authorization
          Delays, DTs,
          Calls,       \* admin functions invoked directly
          Entries,     \* subset of BOOLEAN: with / without an entry for the controller's address
          DPreds, DSalts, DExecs,   \* descriptor fields on offer
          MetaLens,    \* descriptor vector lengths on offer
          Subs,        \* extra sub-invocation in the controller's entry ("none" or a call name)
          XAuths,      \* sets of accounts authorizing the executor tuple (keys of XMenu)
          ChkCtxs,     \* context vectors for the direct __check_auth entry (keys of CtxMenu)
          Depth, Now0, Min0,
          BUG_C09_ZIP, \* TRUE: the pinned code (contexts zipped with descriptors, no length check)
          Emit

VARIABLES led, minD, roles, admin, pend, radm, now, g, viol, hist
vars == <<led, minD, roles, admin, pend, radm, now, g, viol, hist>>
View == <<led, minD, roles, admin, pend, radm, now, g, viol, Len(hist)>>

OpTab == [U0  |-> [call |-> "ud0",  pred |-> "none", salt |-> 0],
          U0s |-> [call |-> "ud0",  pred |-> "none", salt |-> 1],
          U0p |-> [call |-> "ud0",  pred |-> "E",    salt |-> 0],
          U3  |-> [call |-> "ud3",  pred |-> "none", salt |-> 0],
          GX  |-> [call |-> "grXs", pred |-> "none", salt |-> 0],
          GP  |-> [call |-> "grPs", pred |-> "none", salt |-> 0],
          RX  |-> [call |-> "rvXx", pred |-> "none", salt |-> 0],
          RP  |-> [call |-> "rvPp", pred |-> "none", salt |-> 0],
          SR  |-> [call |-> "sra",  pred |-> "none", salt |-> 0],
          TA  |-> [call |-> "tar",  pred |-> "none", salt |-> 0],
          RN  |-> [call |-> "rna",  pred |-> "none", salt |-> 0],
          E   |-> [call |-> "ext",  pred |-> "none", salt |-> 0]]
Names == DOMAIN OpTab
Deny == {"n"}
Roles0 == {<<"p", "proposer">>, <<"p", "canceller">>} \cup {<<a, "executor">> : a \in Execs0}

OpForTab(k, d) ==
  LET S == {i \in Names : OpTab[i].call = k /\ OpTab[i].pred = d.pred /\ OpTab[i].salt = d.salt}
  IN IF S = {} THEN NoOp ELSE CHOOSE i \in S : TRUE

Has(a, r) == <<a, r>> \in roles
ExecCount == Cardinality({pr \in roles : pr[2] = "executor"})
StateOf(l, t) == CASE l = 0 -> "Unset" [] l = 1 -> "Done" [] l > t -> "Waiting" [] OTHER -> "Ready"

(* __check_auth --------------------------------------------------------------*)
Bad(L) == [ok |-> FALSE, led |-> L]
RECURSIVE ImplRun(_, _, _, _, _, _, _)
ImplRun(L, ctxs, metas, xauth, xskip, t, i) ==
  IF i > Len(ctxs) \/ i > Len(metas) THEN [ok |-> TRUE, led |-> L]       \* zip stops at the shorter
  ELSE LET k == ctxs[i]  d == metas[i] IN
       IF k = "create" THEN Bad(L)                                        \* not a contract context
       ELSE IF k \notin AdminCalls THEN Bad(L)                            \* contract # current contract
       ELSE IF ExecCount # 0 /\ ~(d.exec # "none" /\ Has(d.exec, "executor") /\ d.exec \in xauth /\ i # xskip /\ d.exec \notin Deny)
            THEN Bad(L)
       ELSE LET i0 == OpForTab(k, d) IN
            IF i0 = NoOp \/ StateOf(L[i0], t) # "Ready" THEN Bad(L)        \* an id nobody scheduled is Unset
            ELSE IF OpTab[i0].pred # "none" /\ L[OpTab[i0].pred] # 1 THEN Bad(L)
            ELSE ImplRun([L EXCEPT ![i0] = 1], ctxs, metas, xauth, xskip, t, i + 1)

ImplCheckAuth(ctxs, metas, xauth, xskip, t) ==
  IF ~BUG_C09_ZIP /\ Len(metas) # Len(ctxs) THEN Bad(led) ELSE ImplRun(led, ctxs, metas, xauth, xskip, t, 1)

(* entry points --------------------------------------------------------------*)
\* the controller's require_auth(): an entry for its address must be attached (its root is this
\* very invocation), then __check_auth decides
SelfAuth(o, t) == IF o.entry THEN ImplCheckAuth(CtxsOf(o), o.metas, o.xauth, o.xskip, t) ELSE Bad(led)

AdminOk(o, t) ==
  LET k == o.call  ca == SelfAuth(o, t) IN
  CASE k \in {"ud0", "ud3", "sra", "tar"} -> admin = "c" /\ ca.ok
    [] k = "rna"                          -> admin = "c" /\ ca.ok /\ pend = "none"
    \* grant / revoke: caller (= the controller) authorizes, then must be admin (it holds no role)
    [] k \in {"grXs", "grPs"}             -> ca.ok /\ admin = "c"
    [] k = "rvXx"                         -> ca.ok /\ admin = "c" /\ Has("x", "executor")
    [] k = "rvPp"                         -> ca.ok /\ admin = "c" /\ Has("p", "proposer")

AccountYes(a, auth) == auth /\ a \notin Deny

ImplOk(o, t) ==
  CASE o.op = "schedule" -> /\ o.who # "none" /\ Has(o.who, "proposer") /\ AccountYes(o.who, o.auth)
                            /\ StateOf(led[o.id], t) = "Unset" /\ o.delay >= minD
    [] o.op = "cancel"   -> /\ o.who # "none" /\ Has(o.who, "canceller") /\ AccountYes(o.who, o.auth)
                            /\ StateOf(led[o.id], t) \in {"Waiting", "Ready"}
    [] o.op = "execute"  -> /\ ExecCount # 0 => (o.who # "none" /\ Has(o.who, "executor") /\ AccountYes(o.who, o.auth))
                            /\ StateOf(led[o.id], t) = "Ready"
                            /\ (OpTab[o.id].pred = "none" \/ led[OpTab[o.id].pred] = 1)
                            /\ OpTab[o.id].call = "ext"      \* a call back into the controller is a re-entry
    [] o.op = "admin"    -> AdminOk(o, t)
    [] o.op = "chk"      -> ImplCheckAuth(o.ctxs, o.metas, o.xauth, o.xskip, t).ok

ImplEffect(o, t) ==
  CASE o.op = "schedule" -> led' = [led EXCEPT ![o.id] = t + o.delay] /\ UNCHANGED <<minD, roles, admin, pend, radm>>
    [] o.op = "cancel"   -> led' = [led EXCEPT ![o.id] = 0] /\ UNCHANGED <<minD, roles, admin, pend, radm>>
    [] o.op = "execute"  -> led' = [led EXCEPT ![o.id] = 1] /\ UNCHANGED <<minD, roles, admin, pend, radm>>
    [] o.op = "chk"      -> led' = ImplCheckAuth(o.ctxs, o.metas, o.xauth, o.xskip, t).led /\ UNCHANGED <<minD, roles, admin, pend, radm>>
    [] o.op = "admin"    ->
         LET k == o.call IN
         /\ led' = SelfAuth(o, t).led
         /\ minD' = CASE k = "ud0" -> 0 [] k = "ud3" -> 3 [] OTHER -> minD
         /\ roles' = CASE k = "grXs" -> roles \cup {<<"s", "executor">>}
                       [] k = "grPs" -> roles \cup {<<"s", "proposer">>}
                       [] k = "rvXx" -> roles \ {<<"x", "executor">>}
                       [] k = "rvPp" -> roles \ {<<"p", "proposer">>}
                       [] OTHER -> roles
         /\ admin' = IF k = "rna" THEN "none" ELSE admin
         /\ pend' = IF k = "tar" THEN "s" ELSE pend
         /\ radm' = IF k = "sra" THEN [radm EXCEPT !["proposer"] = "canceller"] ELSE radm

CtxMenu == [ud0 |-> <<"ud0">>, ud3 |-> <<"ud3">>, foreign |-> <<"foreign">>, create |-> <<"create">>,
            ud0_ud3 |-> <<"ud0", "ud3">>, ud0_ud0 |-> <<"ud0", "ud0">>, ud0_foreign |-> <<"ud0", "foreign">>,
            grXs |-> <<"grXs">>, ext |-> <<"ext">>, empty |-> <<>>]
XMenu == [none |-> {}, x |-> {"x"}, n |-> {"n"}, s |-> {"s"}, xns |-> {"x", "n", "s"}]
Descs == [pred : DPreds, salt : DSalts, exec : DExecs]
MetaSets == (IF 0 \in MetaLens THEN {<<>>} ELSE {}) \cup UNION {[1..n -> Descs] : n \in MetaLens \ {0}}
Blank == [op |-> "none", id |-> "none", call |-> "none", who |-> "none", auth |-> FALSE, delay |-> 0, entry |-> FALSE,
          metas |-> <<>>, sub |-> "none", ctxs |-> <<>>, xauth |-> {}, xskip |-> 0]

Ops ==
  {[Blank EXCEPT !.op = "schedule", !.id = i, !.who = w, !.auth = a, !.delay = d] :
      i \in SchedOps, w \in SchedWhos, a \in Auths, d \in Delays}
  \cup {[Blank EXCEPT !.op = "cancel", !.id = i, !.who = w, !.auth = a] : i \in SchedOps, w \in SchedWhos, a \in Auths}
  \cup {[Blank EXCEPT !.op = "execute", !.id = i, !.who = w, !.auth = a] : i \in SchedOps, w \in ExecWhos, a \in Auths}
  \cup {[Blank EXCEPT !.op = "admin", !.call = k, !.entry = en, !.metas = ms, !.sub = sb, !.xauth = XMenu[xa]] :
      k \in Calls, en \in Entries, ms \in MetaSets, sb \in Subs, xa \in XAuths}
  \cup {[Blank EXCEPT !.op = "chk", !.ctxs = CtxMenu[cs], !.metas = ms, !.xauth = XMenu[xa]] : cs \in ChkCtxs, ms \in MetaSets, xa \in XAuths}
  \* the executor's entry for the second (context, descriptor) pair left out
  \cup {[Blank EXCEPT !.op = "chk", !.ctxs = CtxMenu[cs], !.metas = ms, !.xauth = XMenu[xa], !.xskip = 2] :
          cs \in {c \in ChkCtxs : Len(CtxMenu[c]) >= 2}, ms \in {m \in MetaSets : Len(m) >= 2}, xa \in XAuths \ {"none"}}

Init == /\ led = [i \in Names |-> 0] /\ minD = Min0 /\ roles = Roles0 /\ admin = "c" /\ pend = "none"
        /\ radm = [r \in Roles |-> "none"] /\ now = Now0
        /\ g = GInit(OpTab, Deny, Min0, Roles0) /\ viol = {} /\ hist = <<>>

Step(o, dt) ==
  LET t  == now + dt
      ok == ImplOk(o, t)
      ev == [op |-> o, now |-> t, res |-> IF ok THEN "ok" ELSE "fail",
             obs |-> [min |-> minD', admin |-> admin', roles |-> roles', radm |-> radm',
                      ops |-> [i \in Names |-> StateOf(led'[i], t)]]]
  IN /\ now' = t
     /\ IF ok THEN ImplEffect(o, t) ELSE UNCHANGED <<led, minD, roles, admin, pend, radm>>
     /\ g' = GNext(g, ev)
     /\ viol' = viol \cup {<<m, Key(m, g, ev)>> : m \in Failing(g, ev)}
     /\ hist' = Append(hist, o @@ [dt |-> dt, exp |-> ev.res, x0 |-> Execs0, m0 |-> Min0])

Next == /\ Len(hist) < Depth
        /\ \E dt \in DTs : \E o \in Ops : Step(o, dt)

Spec == Init /\ [][Next]_vars

Bound == Len(hist) <= Depth
EmitReplay == Emit => PrintT(<<"REPLAY", ToJson(hist')>>)

(* what TLC checks ----------------------------------------------------------*)
NoViolation == viol = {}

Refines == /\ \A i \in Names : StateOf(led[i], now) = ExpState(g.o[i], now)
           /\ minD = g.min /\ roles = g.roles /\ admin = g.admin /\ pend = g.pend /\ radm = g.radm
=============================================================================
