---------------------------- MODULE Trace_MulDiv ----------------------------
(* Trace validation for MulDiv.tla: every recorded case is judged by definition *)
(* with BigInt arithmetic; cnt also counts the branch classes observed.          *)
EXTENDS MulDiv, TLC, Json, IOUtils

Rec == ndJsonDeserialize(IOEnv.TRACE)

VARIABLES l, cnt
vars == <<l, cnt>>

Keys == Monitors \cup {"C12_class_" \o c : c \in Classes}
Init == l = 1 /\ cnt = [k \in Keys |-> 0]

EvOf(raw) == [fn |-> raw.fn, mode |-> raw.mode, x |-> raw.X, y |-> raw.Y, d |-> raw.D,
              res |-> raw.res, q |-> raw.Q, has2 |-> raw.has2, cres |-> raw.cres, cq |-> raw.CQ]

Report(raw, m) == PrintT(<<"VIOL", ToJson([run |-> raw.run, i |-> raw.i, line |-> l, mon |-> m,
                                           prop |-> "C12", key |-> "other"])>>)

Next ==
  /\ l <= Len(Rec)
  /\ l' = l + 1
  /\ LET raw == Rec[l] IN
     IF raw.op.op = "reset" THEN UNCHANGED cnt
     ELSE LET j == Judge(EvOf(raw))  c == "C12_class_" \o j.cls IN
          /\ \A m \in j.fail : Report(raw, m)
          /\ cnt' = [k \in Keys |-> cnt[k] + IF k = c \/ k \in j.ante THEN 1 ELSE 0]
  /\ (l = Len(Rec) => PrintT(<<"DONE", l, ToJson(cnt')>>))

Spec == Init /\ [][Next]_vars
=============================================================================
