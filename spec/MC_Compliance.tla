--------------------------- MODULE MC_Compliance ---------------------------
(* Implementation-shaped model of rwa/compliance/storage.rs + rwa/utils/token_binder/storage.rs:                 *)
(*   lists[h]  the persistent Vec<Address> HookModules(h): add = duplicate check, MAX_MODULES check, push_back;   *)
(*             remove = membership check, position of the first occurrence, Vec::remove(position);                *)
(*   toks      the token binder's bucket (one bucket: BUCKET_SIZE = 100): bind = push_back, unbind = overwrite    *)
(*             the slot with the last token and pop_back;                                                         *)
(*   transferred / created / destroyed = token.require_auth(), THEN is_token_bound, THEN one on_* call per list   *)
(*             element in list order (a trapping module traps the whole call; the host rolls everything back);    *)
(*   can_transfer / can_create = no authorization, one can_* call per element in list order, early `return false`.*)
(* The scripted modules' rules and traps are environment, not implementation: they are read from the ghost.       *)
EXTENDS Compliance, TLC, Json

CONSTANTS Depth, Emit, Profile, BUG
\* Profile: "notify" (the three notification hooks, binding, traps) | "verdict" (the two verdict hooks, rules, traps)
\* BUG: "" | "ignore_last" | "no_bound" | "wrong_list" | "first_only" | "remove_next" | "no_auth"   (vacuity guards)

VARIABLES lists, toks, g, viol, hist
vars == <<lists, toks, g, viol, hist>>
View == <<lists, toks, g, viol, Len(hist)>>

MAXM == 20
Mods == {"m1", "m2"}
Toks == {"t1", "t2"}
MyHooks == IF Profile = "notify" THEN {"Transferred", "Created", "Destroyed"} ELSE {"CanTransfer", "CanCreate", "Transferred"}

Base == [op |-> "", hook |-> "", m |-> "", tok |-> "", from |-> "", to |-> "", amt |-> 0, auth |-> {}, ax |-> TRUE,
         fn |-> "", k |-> "", a |-> "", n |-> 0, fns |-> {}]
Other(t) == IF t = "t1" THEN "t2" ELSE "t1"
Big == 1000000        \* stands for i128::MAX in the harness

Call(op, t, amt, auth, ax) ==
  [Base EXCEPT !.op = op, !.tok = t, !.amt = amt, !.auth = auth, !.ax = ax,
               !.from = IF op \in {"created", "can_create", "require"} THEN "" ELSE "a",
               !.to = IF op \in {"destroyed", "require"} THEN "" ELSE "b"]

RegOps == {[Base EXCEPT !.op = x, !.hook = h, !.m = m] : x \in {"add", "remove"}, h \in MyHooks, m \in Mods}
BindOps == {[Base EXCEPT !.op = x, !.tok = t] : x \in {"bind", "unbind"}, t \in Toks}
TrapOps(S) == {[Base EXCEPT !.op = "trap", !.m = m, !.fns = f] : m \in Mods, f \in S}
RuleOps == {[Base EXCEPT !.op = "rule", !.m = m, !.fn = f, !.k = r[1], !.a = r[2], !.n = r[3]] :
              m \in Mods, f \in {"ct", "cc"}, r \in {<<"all", "", 0>>, <<"none", "", 0>>, <<"amt", "", 1>>, <<"to", "b", 0>>}}
NotifyCalls ==
  UNION {{Call(op, t, 1, au, TRUE) : op \in NotifyOps \cup {"require"}, au \in {{}, {t}, {Other(t)}, {"a"}}} : t \in Toks}
  \cup {Call(op, "t1", amt, {"t1"}, TRUE) : op \in NotifyOps, amt \in {0, Big}}
  \cup {Call(op, "t1", 1, {"t1"}, FALSE) : op \in NotifyOps}
CanCalls ==
  {Call(op, "t1", amt, {}, TRUE) : op \in CanOps, amt \in {0, 1, Big}}
  \cup {[Call("can_transfer", "t2", 1, {"t2"}, TRUE) EXCEPT !.from = "b", !.to = "a"], Call("transferred", "t1", 1, {"t1"}, TRUE)}

Ops == IF Profile = "notify"
       THEN RegOps \cup BindOps \cup TrapOps({{}, {"on_transfer"}, AllFns}) \cup NotifyCalls
       ELSE RegOps \cup {[Base EXCEPT !.op = "bind", !.tok = "t1"]} \cup RuleOps
            \cup TrapOps({{}, {"can_create"}}) \cup CanCalls

Range(s) == {s[i] : i \in DOMAIN s}
First(s, x) == CHOOSE i \in DOMAIN s : s[i] = x /\ \A j \in 1..(i - 1) : s[j] # x
Drop(s, i) == SubSeq(s, 1, i - 1) \o SubSeq(s, i + 1, Len(s))

\* which list a hook call walks
ListOf(o) ==
  LET h == HookOf(o.op) IN
  IF BUG = "wrong_list" /\ o.op = "destroyed" THEN lists["Transferred"]
  ELSE IF BUG = "wrong_list" /\ o.op = "can_create" THEN lists["CanTransfer"]
  ELSE IF BUG = "ignore_last" /\ o.op \in CanOps /\ Len(lists[h]) > 0 THEN SubSeq(lists[h], 1, Len(lists[h]) - 1)
  ELSE lists[h]

\* can_*: walk the list, early return on the first FALSE; a trapping module traps the call
RECURSIVE CanWalk(_, _, _, _)
CanWalk(l, i, o, acc) ==
  IF i > Len(l) THEN [ok |-> TRUE, ret |-> TRUE, notes |-> acc]
  ELSE IF Traps(g, l[i], o) THEN [ok |-> FALSE, ret |-> FALSE, notes |-> <<>>]
  ELSE IF ~Ans(RuleFor(g, l[i], o), o) THEN [ok |-> TRUE, ret |-> FALSE, notes |-> Append(acc, ExpNote(o, l[i]))]
  ELSE IF BUG = "first_only" THEN [ok |-> TRUE, ret |-> TRUE, notes |-> Append(acc, ExpNote(o, l[i]))]
  ELSE CanWalk(l, i + 1, o, Append(acc, ExpNote(o, l[i])))

Gate(o) == /\ (BUG = "no_auth" \/ Authorized(o))                  \* token.require_auth()
           /\ (BUG = "no_bound" \/ o.tok \in Range(toks))         \* TokenNotBound

\* outcome of a hook call: [ok, ret, notes]
Hook(o) ==
  IF o.op \in CanOps THEN CanWalk(ListOf(o), 1, o, <<>>)
  ELSE IF o.op = "require" THEN [ok |-> Gate(o), ret |-> FALSE, notes |-> <<>>]
  ELSE LET l == ListOf(o) IN
       IF Gate(o) /\ \A i \in DOMAIN l : ~Traps(g, l[i], o)
       THEN [ok |-> TRUE, ret |-> FALSE, notes |-> [i \in DOMAIN l |-> ExpNote(o, l[i])]]
       ELSE [ok |-> FALSE, ret |-> FALSE, notes |-> <<>>]

ImplOk(o) ==
  CASE o.op = "add"    -> o.m \notin Range(lists[o.hook]) /\ Len(lists[o.hook]) < MAXM
    [] o.op = "remove" -> o.m \in Range(lists[o.hook])
    [] o.op = "bind"   -> o.tok \notin Range(toks)
    [] o.op = "unbind" -> o.tok \in Range(toks)
    [] OTHER           -> TRUE
ImplEffect(o) ==
  CASE o.op = "add"    -> lists' = [lists EXCEPT ![o.hook] = Append(@, o.m)] /\ UNCHANGED toks
    [] o.op = "remove" -> /\ lists' = [lists EXCEPT ![o.hook] =
                                LET i == First(@, o.m) IN
                                IF BUG = "remove_next" /\ i < Len(@) THEN Drop(@, i + 1) ELSE Drop(@, i)]
                          /\ UNCHANGED toks
    [] o.op = "bind"   -> toks' = Append(toks, o.tok) /\ UNCHANGED lists
    [] o.op = "unbind" -> /\ toks' = LET i == First(toks, o.tok)  n == Len(toks) IN
                                     SubSeq([toks EXCEPT ![i] = toks[n]], 1, n - 1)
                          /\ UNCHANGED lists
    [] OTHER           -> UNCHANGED <<lists, toks>>

ObsOf(ls, ts, notes) == [mods |-> ls, reg |-> [h \in Hooks |-> Range(ls[h]) \cap Mods], bound |-> Range(ts), notes |-> notes]

Init == /\ lists = [h \in Hooks |-> <<>>] /\ toks = <<>>
        /\ g = GInit(Mods, Mods, Toks, {})
        /\ viol = {} /\ hist = <<>>
Step(o) ==
  \E hk \in {IF o.op \in HookOps THEN Hook(o) ELSE [ok |-> ImplOk(o), ret |-> FALSE, notes |-> <<>>]} :
    /\ IF hk.ok /\ o.op \notin HookOps THEN ImplEffect(o) ELSE UNCHANGED <<lists, toks>>
    /\ \E ev \in {[op |-> o, res |-> IF hk.ok THEN "ok" ELSE "fail", ret |-> hk.ret,
                   obs |-> ObsOf(lists', toks', hk.notes)]} :
         /\ g' = GNext(g, ev)
         /\ viol' = viol \cup {<<m, Key(m, g, ev)>> : m \in Failing(g, ev)}
         /\ hist' = Append(hist, o @@ [exp |-> ev.res])
Next == Len(hist) < Depth /\ \E o \in Ops : Step(o)
Bound == TRUE
EmitReplay == Emit => PrintT(<<"REPLAY", ToJson(hist')>>)
NoViolation == viol = {}
NoDup(s) == \A i, j \in DOMAIN s : i # j => s[i] # s[j]
Refines == /\ \A h \in Hooks : Range(lists[h]) = g.mods[h] /\ NoDup(lists[h])
           /\ Range(toks) = g.bound /\ NoDup(toks)
=============================================================================
