----------------------------- MODULE Royalties -----------------------------
(***************************************************************************)
(* Beyond the listed properties (X01): NFT royalties                        *)
(* (packages/tokens/src/non_fungible/extensions/royalties through           *)
(* examples/nft-royalties).                                                 *)
(*   X01  royalty_info(token, price) answers for existing tokens only, with *)
(*   the token's own setting if one is set (and not since removed), else    *)
(*   the default setting, else nothing; the amount is price * bps / 10000   *)
(*   rounded toward zero and never exceeds the price; basis points above    *)
(*   10000 are refused; settings change only through the manager-gated      *)
(*   entry points (or the admin's mint_with_royalty).                       *)
(*                                                                         *)
(* Event: op = [op, tok, recv, bps, who, auth, price]; res; ret = [recv,    *)
(* amt] of royalty_info (queried for EVERY token of the universe after each *)
(* step as obs.info[tok] = [ok, recv, amt] at the fixed price obs.price).   *)
(***************************************************************************)
EXTENDS Integers, Sequences, FiniteSets

None == "none"

GInit(admin, manager, self, obs) ==
  [admin |-> admin, manager |-> manager, self |-> self,
   minted |-> {}, next |-> 0,
   def |-> [recv |-> admin, bps |-> 1000],          \* the example's constructor sets 10 % to the admin
   tok |-> [t \in {} |-> [recv |-> None, bps |-> 0]]]

HasTok(g, t) == t \in DOMAIN g.tok
Setting(g, t) == IF HasTok(g, t) THEN g.tok[t] ELSE g.def

SetTok(g, t, r, b) == [g EXCEPT !.tok = [x \in DOMAIN g.tok \cup {t} |-> IF x = t THEN [recv |-> r, bps |-> b] ELSE g.tok[x]]]
DelTok(g, t) == [g EXCEPT !.tok = [x \in DOMAIN g.tok \ {t} |-> g.tok[x]]]

GNext(g, ev) ==
  LET o == ev.op IN
  IF ev.res # "ok" THEN g ELSE
  CASE o.op = "mint"         -> [g EXCEPT !.minted = @ \cup {g.next}, !.next = @ + 1]
    [] o.op = "mint_royalty" -> [SetTok(g, g.next, o.recv, o.bps) EXCEPT !.minted = @ \cup {g.next}, !.next = @ + 1]
    [] o.op = "set_default"  -> [g EXCEPT !.def = [recv |-> o.recv, bps |-> o.bps]]
    [] o.op = "set_token"    -> SetTok(g, o.tok, o.recv, o.bps)
    [] o.op = "remove_token" -> DelTok(g, o.tok)
    [] OTHER -> g

Monitors == {"X01_info", "X01_bps", "X01_gate", "X01_exists"}
PropOf(m) == "X01"

Trunc(p, b) == IF p >= 0 THEN (p * b) \div 10000 ELSE -(((-p) * b) \div 10000)

Ante(m, g, ev) ==
  LET o == ev.op  ok == ev.res = "ok" IN
  CASE m = "X01_info"   -> TRUE
    [] m = "X01_bps"    -> o.op \in {"mint_royalty", "set_default", "set_token"} /\ ok
    [] m = "X01_gate"   -> o.op \in {"mint", "mint_royalty", "set_default", "set_token", "remove_token"} /\ ok
    [] m = "X01_exists" -> o.op \in {"set_token", "remove_token"} /\ ok

Cons(m, g, ev) ==
  LET o == ev.op  g2 == GNext(g, ev)  p == ev.obs.price IN
  CASE m = "X01_info" ->
         \A t \in DOMAIN ev.obs.info :
            LET i == ev.obs.info[t]  tn == ev.obs.ids[t] IN
            IF tn \in g2.minted
            THEN /\ i.ok /\ i.recv = Setting(g2, tn).recv
                 /\ i.amt = Trunc(p, Setting(g2, tn).bps)
                 /\ (p >= 0 => (i.amt >= 0 /\ i.amt <= p))
            ELSE ~i.ok
    [] m = "X01_bps"    -> o.bps <= 10000
    [] m = "X01_gate"   -> IF o.op \in {"mint", "mint_royalty"} THEN g.admin \in o.auth
                           ELSE o.who = g.manager /\ g.manager \in o.auth
    [] m = "X01_exists" -> o.tok \in g.minted

Holds(m, g, ev) == Ante(m, g, ev) => Cons(m, g, ev)
Key(m, g, ev) == "other"
Failing(g, ev) == {m \in Monitors : ~Holds(m, g, ev)}
=============================================================================
