------------------------------ MODULE VaultBig ------------------------------
(***************************************************************************)
(* The C05 monitors of Vault.tla restated over BigInt values, for traces   *)
(* recorded at real magnitudes: decimals offsets 0..10, amounts up to      *)
(* ~10^30 (products beyond i128: the I256 path of mul_div).  Every number   *)
(* is logged as [n, m] (sign, limbs base 2^15).  Judged per step from the   *)
(* previous observation `g` and the current one.                           *)
(*                                                                         *)
(* Event: op = [op, recv, own, oper, auth]; x, pv, ret : numbers;          *)
(* pvok, res; obs = [A, S : vault assets / share supply,                   *)
(*                   asset, sh : account -> number]; off.                  *)
(***************************************************************************)
EXTENDS Integers, Sequences, FiniteSets
INSTANCE BigInt WITH Base <- 32768

V == "v"
Enter == {"deposit", "mint"}
Leave == {"withdraw", "redeem"}
VaultOps == Enter \cup Leave

RECURSIVE Pow10B(_)
Pow10B(n) == IF n = 0 THEN One ELSE BMul(Pow10B(n - 1), FromInt(10))

N(r) == FromLog(r)
\* q = floor(num/den), q = ceil(num/den) for den > 0, num >= 0
IsFloor(q, num, den) == BLe(BMul(q, den), num) /\ BLt(num, BMul(BAdd(q, One), den))
IsCeil(q, num, den)  == BLt(BMul(BSub(q, One), den), num) /\ BLe(num, BMul(q, den))

Monitors == {"C05_big_rate", "C05_big_round", "C05_big_preview", "C05_big_movement"}
PropOf(m) == "C05"

AssetsOf(o, x, ret) == IF o.op \in {"deposit", "withdraw"} THEN x ELSE ret
SharesOf(o, x, ret) == IF o.op \in {"mint", "redeem"} THEN x ELSE ret

\* expected balance of account a after a successful vault operation
ExpAsset(g, o, a, assets) ==
  LET pre == N(g.asset[a]) IN
  IF o.op \in Enter THEN (IF a = o.own /\ a = V THEN pre
                          ELSE IF a = o.own THEN BSub(pre, assets) ELSE IF a = V THEN BAdd(pre, assets) ELSE pre)
  ELSE IF o.op \in Leave THEN (IF a = o.recv /\ a = V THEN pre
                          ELSE IF a = V THEN BSub(pre, assets) ELSE IF a = o.recv THEN BAdd(pre, assets) ELSE pre)
  ELSE IF o.op = "donate" THEN (IF a = o.own THEN BSub(pre, assets) ELSE IF a = V THEN BAdd(pre, assets) ELSE pre)
  ELSE pre
ExpSh(g, o, a, shares) ==
  LET pre == N(g.sh[a]) IN
  IF o.op \in Enter THEN (IF a = o.recv THEN BAdd(pre, shares) ELSE pre)
  ELSE IF o.op \in Leave THEN (IF a = o.own THEN BSub(pre, shares) ELSE pre)
  ELSE pre

Judge(g, ev) ==
  LET o == ev.op  ok == ev.res = "ok"
      P == Pow10B(ev.off)
      A == N(g.A)  S == N(g.S)  A2 == N(ev.obs.A)  S2 == N(ev.obs.S)
      x == N(ev.x)  ret == N(ev.ret)
      vop == o.op \in VaultOps
      sp == BAdd(S, P)  a1 == BAdd(A, One)
      rate == BLe(BMul(a1, BAdd(S2, P)), BMul(BAdd(A2, One), sp))
      round == CASE o.op = "deposit"  -> IsFloor(ret, BMul(x, sp), a1)
                 [] o.op = "mint"     -> IsCeil(ret, BMul(x, a1), sp)
                 [] o.op = "withdraw" -> IsCeil(ret, BMul(x, sp), a1)
                 [] o.op = "redeem"   -> IsFloor(ret, BMul(x, a1), sp)
                 [] OTHER -> TRUE
      assets == IF o.op = "donate" THEN x ELSE AssetsOf(o, x, ret)
      shares == SharesOf(o, x, ret)
      move == /\ \A a \in DOMAIN g.asset : BEq(N(ev.obs.asset[a]), ExpAsset(g, o, a, assets))
              /\ \A a \in DOMAIN g.sh : BEq(N(ev.obs.sh[a]), ExpSh(g, o, a, shares))
              /\ BEq(S2, IF o.op \in Enter THEN BAdd(S, shares) ELSE IF o.op \in Leave THEN BSub(S, shares) ELSE S)
  IN
  [fail |-> (IF ok /\ ~rate THEN {"C05_big_rate"} ELSE {})
            \cup (IF ok /\ vop /\ ~round THEN {"C05_big_round"} ELSE {})
            \cup (IF ok /\ vop /\ ~(ev.pvok /\ BEq(N(ev.pv), ret)) THEN {"C05_big_preview"} ELSE {})
            \cup (IF ok /\ (vop \/ o.op = "donate") /\ ~move THEN {"C05_big_movement"} ELSE {}),
   ante |-> (IF ok THEN {"C05_big_rate"} ELSE {})
            \cup (IF ok /\ vop THEN {"C05_big_round", "C05_big_preview"} ELSE {})
            \cup (IF ok /\ (vop \/ o.op = "donate") THEN {"C05_big_movement"} ELSE {})]
=============================================================================
